// C04 — reverting to a snapshot restores the account state exactly; the root
// afterwards equals the root had the reverted operations never been executed.
//
// Monitor over the REAL account.AccountDB (Proposal002 active), two oracles
// (see oracle.go): accessor answers at Snapshot() vs after RevertToSnapshot(),
// and twin execution (history vs history-without-reverted-regions) with a
// leaf-level diff of the two committed account tries. Every mismatch is reduced
// by delta debugging to a minimal history and classified (kind of account, kinds
// of reverted operations, kind of leaf difference); the class is the signature.
//
// Process model: the native-balance binding is a process-global cache inside the
// account package, so the "unbound" configuration (balances live in the storage
// of the zero address) and the "bound" one (balances live in the storage of the
// bound token contract) run in two child processes.
package main

import (
	"encoding/json"
	"fmt"
	"os"
	"runtime"
	"sort"
	"strconv"
	"strings"
	"sync"
	"time"

	"com.tuntun.rangers/node/src/common"
	"com.tuntun.rangers/node/src/storage/account"
	"com.tuntun.rangers/node/src/storage/trie"

	"verifharness/env"
	"verifharness/mon"
)

// ---------------------------------------------------------------------------

type rawFinding struct {
	caseIdx int
	cut     int
	oracle  string // twin | twin-nodiff | accessor | stale
	addr    common.Address
	global  bool
	kind    string // leaf-diff kind, or accessor name
	item    obsItem
	was     string
	now     string
	diff    *leafDiff
	roots   map[string]string
	raw     string
}

type Witness struct {
	Case     Case              `json:"case"`
	Oracle   string            `json:"oracle"`
	History  []string          `json:"history"`
	Diff     *leafDiff         `json:"leaf_diff,omitempty"`
	AllDiffs []leafDiff        `json:"all_leaf_diffs,omitempty"`
	Accessor string            `json:"accessor,omitempty"`
	Was      string            `json:"answer_at_snapshot,omitempty"`
	Now      string            `json:"answer_after_revert,omitempty"`
	Roots    map[string]string `json:"roots,omitempty"`
	FromCase int               `json:"from_case_index"`
	FromLen  int               `json:"from_history_length"`
}

func subjectOnly(cls string) string {
	for _, m := range []string{"-after-", "-reverted-"} {
		if i := strings.Index(cls, m); i >= 0 {
			cls = cls[:i]
		}
	}
	return cls
}

func nesting(h []Op) int {
	max, depth := 0, 0
	var st []int
	for _, o := range h {
		switch o.K {
		case "Snapshot":
			st = append(st, o.ID)
		case "Revert":
			for k := len(st) - 1; k >= 0; k-- {
				if st[k] == o.ID {
					st = st[:k]
					break
				}
			}
		case "Finalise", "Commit", "Reopen":
			st = st[:0]
		}
		depth = len(st)
		if depth > max {
			max = depth
		}
	}
	return max
}

func lifecycle(S *runner, a common.Address) string {
	l := "fresh"
	if S.reopened {
		if tr, err := trie.NewTrie(S.lastReopen, S.db.TrieDB()); err == nil {
			if v, _ := tr.TryGet(a[:]); len(v) > 0 {
				l = "loaded"
			}
		}
	}
	adb := S.adb
	switch {
	case adb.HasSuicided(a):
		return l + "-self-destructed"
	case !adb.Exist(a):
		if l == "loaded" {
			return "loaded-then-deleted"
		}
		return "absent"
	case adb.GetCodeSize(a) > 0:
		return l + "-has-code"
	case adb.Empty(a):
		return l + "-empty-looking"
	}
	return l + "-nonempty"
}

// evalCase runs both oracles at every revert of the history and the twin oracle
// at its end.
func evalCase(r *mon.Run, d account.AccountDatabase, c Case, ci int, stats bool) []rawFinding {
	h := c.Hist
	rev, ok := marks(h)
	if !ok {
		panic("harness: generator produced a malformed history")
	}
	if stats {
		r.Count("histories", 1)
		r.Count("ops_total", int64(len(h)))
		kinds := map[string]int64{}
		undone := 0
		for i, o := range h {
			kinds[o.K]++
			if rev[i] && isMutator(o.K) {
				undone++
			}
		}
		for k, n := range kinds {
			r.Count("op_"+k, n)
		}
		r.Count("reverted_mutators", int64(undone))
		r.Max("max_nesting", int64(nesting(h)))
		if undone > 0 {
			b, _ := json.Marshal(h)
			r.Distinct("history", []byte(c.Mode), b)
			r.Count("nontrivial_histories", 1)
		}
	}
	var out []rawFinding
	seen := map[string]bool{}
	emit := func(f rawFinding) {
		k := f.oracle + "|" + f.kind + "|" + string(f.addr[:]) + "|" + f.item.Arg
		if seen[k] {
			return
		}
		seen[k] = true
		f.caseIdx = ci
		out = append(out, f)
	}
	anyRev := false
	for cut := 1; cut <= len(h); cut++ {
		isRev := h[cut-1].K == "Revert"
		if !isRev && cut != len(h) {
			continue
		}
		p := h[:cut]
		if isRev {
			anyRev = true
			mm, n := accessorCheck(d, p)
			r.Count("accessor_comparisons", int64(n))
			r.Count("reverts_checked", 1)
			for _, m := range mm {
				f := rawFinding{cut: cut, oracle: "accessor", kind: m.Item.Acc, item: m.Item, was: m.Was, now: m.Now, global: m.Item.Addr < 0}
				if m.Item.Addr >= 0 {
					f.addr = obsAddr[m.Item.Addr]
				}
				emit(f)
			}
			if stats { // life-cycle classes of the accounts whose mutations this revert undoes
				s := snapshotIndex(p)
				S := newRunner(d)
				S.run(p[:s])
				done := map[int]bool{}
				for i := s; i < cut; i++ {
					if isMutator(p[i].K) && family[p[i].K] != "refund" && family[p[i].K] != "bind" && !done[p[i].A] {
						done[p[i].A] = true
						r.Count("lifecycle_"+lifecycle(S, uAddr[p[i].A%nUniverse]), 1)
					}
				}
			}
			nested := false
			for i := snapshotIndex(p) + 1; i < cut-1; i++ {
				if p[i].K == "Snapshot" {
					nested = true
				}
			}
			if nested {
				probed, acc := staleAccepted(d, p)
				r.Count("stale_revision_probes", int64(probed))
				if acc {
					emit(rawFinding{cut: cut, oracle: "stale", kind: "stale-revision-accepted", global: true})
				}
			}
		}
		if !anyRev {
			continue
		}
		if !isRev {
			// end of history: only new information if something survived after the last revert
			last := 0
			for i := range h {
				if h[i].K == "Revert" {
					last = i
				}
			}
			if last == len(h)-1 {
				continue
			}
		}
		prv, _ := marks(p)
		res := twinCheck(d, p, prv, c.Final)
		r.Count("twin_root_comparisons", 1)
		if res.mismatch() {
			roots := map[string]string{"intermediate_original": res.irO.Hex(), "intermediate_twin": res.irT.Hex(),
				"commit_original": res.crO.Hex(), "commit_twin": res.crT.Hex()}
			if len(res.diffs) == 0 {
				emit(rawFinding{cut: cut, oracle: "twin-nodiff", kind: "no-leaf-diff:" + res.dumpErr, global: true, roots: roots})
			}
			for i := range res.diffs {
				df := res.diffs[i]
				emit(rawFinding{cut: cut, oracle: "twin", kind: df.Kind, addr: df.Addr, diff: &df, roots: roots})
			}
		}
	}
	for i := range out {
		f := &out[i]
		p := h[:f.cut]
		cls := subjectOnly(classify(d, p, f.addr, f.global))
		// families of reverted operations aimed at the account (coarse, pre-minimisation)
		prv, _ := marks(p)
		fams := map[string]bool{}
		for j, o := range p {
			if prv[j] && family[o.K] != "" && (f.global || uAddr[o.A%nUniverse] == f.addr) {
				fams[family[o.K]] = true
			}
		}
		f.raw = f.oracle + "|" + f.kind + "|" + cls + "|" + famList(fams)
	}
	return out
}

// reduce minimises one raw finding and reports it under its class signature.
func reduce(r *mon.Run, d account.AccountDatabase, c Case, f rawFinding, budget int) {
	h := append([]Op(nil), c.Hist[:f.cut]...)
	fm := c.Final
	safe := func(p func() bool) (ok bool) {
		defer func() {
			if recover() != nil {
				ok = false
			}
		}()
		return p()
	}
	var pred func(fm finalMode) func([]Op) bool
	switch f.oracle {
	case "twin":
		pred = func(fm finalMode) func([]Op) bool {
			return func(c []Op) bool {
				return safe(func() bool {
					rv, ok := marks(c)
					if !ok || len(c) == 0 {
						return false
					}
					res := twinCheck(d, c, rv, fm)
					for _, df := range res.diffs {
						if df.Addr == f.addr && df.Kind == f.kind {
							return true
						}
					}
					return false
				})
			}
		}
	case "twin-nodiff":
		pred = func(fm finalMode) func([]Op) bool {
			return func(c []Op) bool {
				return safe(func() bool {
					rv, ok := marks(c)
					if !ok || len(c) == 0 {
						return false
					}
					res := twinCheck(d, c, rv, fm)
					return res.mismatch() && len(res.diffs) == 0
				})
			}
		}
	case "accessor":
		pred = func(finalMode) func([]Op) bool {
			return func(c []Op) bool {
				return safe(func() bool {
					if _, ok := marks(c); !ok || len(c) == 0 || c[len(c)-1].K != "Revert" {
						return false
					}
					mm, _ := accessorCheck(d, c)
					for _, m := range mm {
						if m.Item.Acc == f.item.Acc && m.Item.Addr == f.item.Addr && m.Item.Arg == f.item.Arg {
							return true
						}
					}
					return false
				})
			}
		}
	case "stale":
		pred = func(finalMode) func([]Op) bool {
			return func(c []Op) bool {
				return safe(func() bool {
					if _, ok := marks(c); !ok || len(c) == 0 || c[len(c)-1].K != "Revert" {
						return false
					}
					_, acc := staleAccepted(d, c)
					return acc
				})
			}
		}
	}
	if !pred(fm)(h) {
		r.Count("findings_not_reproduced_in_reduction", 1)
		r.Note("finding %s in case %d cut %d did not reproduce on re-execution", f.raw, c.Index, f.cut)
		return
	}
	canon := finalMode{D: true, IR: true}
	if fm != canon && pred(canon)(h) {
		fm = canon
	}
	m := minimize(h, pred(fm), budget)
	if fm != canon && pred(canon)(m) {
		fm = canon
	}
	r.Count("findings_minimised", 1)
	w := Witness{Case: Case{Mode: c.Mode, Hist: m, Final: fm, Index: c.Index}, Oracle: f.oracle, History: describe(m),
		FromCase: c.Index, FromLen: len(c.Hist)}
	suffix := ""
	if !fm.D {
		suffix += ":keep-empty"
	}
	if !fm.IR {
		suffix += ":commit-only"
	}
	cls := classify(d, m, f.addr, f.global)
	switch f.oracle {
	case "twin", "twin-nodiff":
		rv, _ := marks(m)
		res := twinCheck(d, m, rv, fm)
		w.Roots = map[string]string{"intermediate_original": res.irO.Hex(), "intermediate_twin": res.irT.Hex(),
			"commit_original": res.crO.Hex(), "commit_twin": res.crT.Hex()}
		w.AllDiffs = res.diffs
		what := "roots differ but the committed tries have no differing leaf"
		kind := "no-leaf-diff"
		for i := range res.diffs {
			if res.diffs[i].Addr == f.addr && res.diffs[i].Kind == f.kind {
				w.Diff = &res.diffs[i]
				kind = f.kind
				what = fmt.Sprintf("account %s %s", w.Diff.Name, w.Diff.Kind)
				if len(w.Diff.Slots) > 0 {
					what += fmt.Sprintf(" (slot %s: original %q, twin %q)", w.Diff.Slots[0].Key, w.Diff.Slots[0].Orig, w.Diff.Slots[0].Twin)
				}
			}
		}
		r.Violation("C04:twin-root:"+cls+":"+kind+suffix,
			fmt.Sprintf("[%s] root after the history %v differs from the root of the same history without its reverted regions: %s", c.Mode, strings.Join(trim(w.History), "; "), what), w)
	case "accessor":
		w.Accessor, w.Was, w.Now = f.item.label(), f.was, f.now
		if mm, _ := accessorCheck(d, m); true {
			for _, x := range mm {
				if x.Item.Acc == f.item.Acc && x.Item.Addr == f.item.Addr && x.Item.Arg == f.item.Arg {
					w.Was, w.Now = x.Was, x.Now
				}
			}
		}
		r.Violation("C04:accessor:"+f.item.Acc+":"+cls,
			fmt.Sprintf("[%s] %s answered %q when the snapshot was taken and %q after reverting to it; history %v", c.Mode, w.Accessor, w.Was, w.Now, strings.Join(trim(w.History), "; ")), w)
	case "stale":
		r.Violation("C04:revert:stale-revision-accepted",
			fmt.Sprintf("[%s] a revision id taken inside a region that was reverted is still accepted by RevertToSnapshot; history %v", c.Mode, strings.Join(trim(w.History), "; ")), w)
	}
}

func trim(s []string) []string {
	out := make([]string, len(s))
	for i := range s {
		out[i] = strings.TrimSpace(s[i])
	}
	return out
}

// ---------------------------------------------------------------------------

func bootMode(mode string) {
	env.ScratchDir("verif-c04-")
	env.BootServices(env.Forks{})
	common.LocalChainConfig.Proposal002Block = 0
	common.SetBlockHeight(10)
	if !common.IsProposal002() {
		fmt.Println("MACHINERY: Proposal002 not active")
		os.Exit(2)
	}
	setupUniverse(mode == "bound")
	d := newDB()
	rn := newRunner(d)
	if mode == "bound" { // fill the process-global binding cache once, single-threaded
		rn.exec(Op{K: "Bind"})
	}
	rn.adb.AddBalance(uAddr[0], amts[1])
	if len(rn.adb.GetData(uAddr[idxHolder], slotRPG[0])) == 0 || rn.adb.GetBalance(uAddr[0]).Cmp(amts[1]) != 0 {
		fmt.Printf("MACHINERY: balance of A0 is not stored at the expected slot of %s in mode %s\n", accName(uAddr[idxHolder]), mode)
		os.Exit(2)
	}
}

func cleanupScratch() {
	d, _ := os.Getwd()
	if strings.Contains(d, "verif-c04-") {
		os.Chdir("/")
		os.RemoveAll(d)
	}
}

// runCases: phase 1 evaluates every case (parallel, one AccountDatabase per worker,
// recycled), phase 2 minimises the first few findings of every raw class in
// case-index order (so the selection does not depend on scheduling).
func runCases(r *mon.Run, cases []Case, workers int, perClass int, budget int) {
	findings := make([][]rawFinding, len(cases))
	var wg sync.WaitGroup
	ch := make(chan int, workers)
	for w := 0; w < workers; w++ {
		wg.Add(1)
		go func() {
			defer wg.Done()
			d, used := newDB(), 0
			for i := range ch {
				if used++; used%200 == 0 {
					d = newDB()
				}
				c := cases[i]
				r.Guard("C04:run", c, func() { findings[i] = evalCase(r, d, c, i, true) })
			}
		}()
	}
	for i := range cases {
		ch <- i
	}
	close(ch)
	wg.Wait()

	var all []rawFinding
	for _, fs := range findings {
		all = append(all, fs...)
	}
	r.Count("raw_findings", int64(len(all)))
	sort.SliceStable(all, func(i, j int) bool {
		if all[i].caseIdx != all[j].caseIdx {
			return all[i].caseIdx < all[j].caseIdx
		}
		return all[i].cut < all[j].cut
	})
	taken := map[string]int{}
	var todo []rawFinding
	for _, f := range all {
		if taken[f.raw] < perClass {
			taken[f.raw]++
			todo = append(todo, f)
		}
	}
	r.Count("raw_finding_classes", int64(len(taken)))
	ch2 := make(chan int, workers)
	for w := 0; w < workers; w++ {
		wg.Add(1)
		go func() {
			defer wg.Done()
			d, used := newDB(), 0
			for i := range ch2 {
				if used++; used%20 == 0 {
					d = newDB()
				}
				f := todo[i]
				c := cases[f.caseIdx]
				r.Guard("C04:reduce", c, func() { reduce(r, d, c, f, budget) })
			}
		}()
	}
	for i := range todo {
		ch2 <- i
	}
	close(ch2)
	wg.Wait()
}

func childMain(args []string) {
	r := mon.Start("C04")
	mode := args[0]
	n, _ := strconv.Atoi(args[1])
	workers, _ := strconv.Atoi(args[2])
	bootMode(mode)
	var cases []Case
	cases = append(cases, directedCases(mode)...)
	r.Count("directed_histories", int64(len(cases)))
	for i := 0; i < n; i++ {
		cases = append(cases, genCase(r.Rand("hist", mode, i), mode, i))
	}
	for _, i := range []int{len(cases) - 1, len(cases) - 2} {
		if i >= 0 {
			r.Sample(map[string]interface{}{"mode": mode, "index": cases[i].Index, "final": cases[i].Final, "history": trim(describe(cases[i].Hist))})
		}
	}
	runCases(r, cases, workers, r.Pick(4, 12), 2500)
	r.Count("mode_"+mode+"_histories", int64(len(cases)))
	cleanupScratch()
	r.Finish(mon.Coverage{Evaluations: int64(len(cases))})
}

func main() {
	if args, ok := mon.IsChildInvocation(); ok {
		childMain(args)
		return
	}
	r := mon.Start("C04")
	if p := mon.ReplayArg(); p != "" {
		v, err := mon.LoadReplay(p)
		if err != nil {
			fmt.Println("MACHINERY:", err)
			os.Exit(2)
		}
		var w struct {
			Case Case `json:"case"`
		}
		if err := json.Unmarshal(v.Witness, &w); err != nil || len(w.Case.Hist) == 0 {
			fmt.Println("MACHINERY: replay file has no case:", err)
			os.Exit(2)
		}
		bootMode(w.Case.Mode)
		fmt.Printf("replaying %s history (%s):\n  %s\n", w.Case.Mode, v.Signature, strings.Join(describe(w.Case.Hist), "\n  "))
		runCases(r, []Case{w.Case}, 1, 1000, 2500)
		cleanupScratch()
		r.Finish(mon.Coverage{Evaluations: 2, DistinctNontrivial: 2, Rule: "replay of one recorded history"})
	}

	n := r.Pick(2000, 75000) // random histories per mode (plus the directed set)
	cpus := runtime.NumCPU()
	if cpus > 16 {
		cpus = 16
	}
	per := cpus / 2
	if per < 1 {
		per = 1
	}
	var specs []mon.ChildSpec
	for _, mode := range []string{"unbound", "bound"} {
		specs = append(specs, mon.ChildSpec{Label: mode, Args: []string{mode, strconv.Itoa(n), strconv.Itoa(per)},
			Timeout: time.Duration(r.Pick(15, 90)) * time.Minute})
	}
	for _, res := range r.RunChildren(specs, 2) {
		r.Absorb(res, "C04:child")
	}
	mon.CleanWork()
	r.Finish(mon.Coverage{
		Evaluations:        r.Get("histories"),
		DistinctNontrivial: int64(r.DistinctCount("history")),
		Rule: "histories over a closed universe (8 plain addresses + the balance-holding account, 6 storage keys + 2 token keys, 3 tx hashes / access-list slots / transient keys) on the real AccountDB with Proposal002 active: " +
			"directed set (every mutator kind alone and nested in a reverted region x 11 account life-cycle setups x 4 continuations) plus seeded random histories (optional committed base state, 1-2 blocks of transactions with nested Snapshot/Revert up to depth 6, " +
			"reads interleaved, Finalise/Commit/Reopen between blocks), in two process configurations (native balance unbound -> zero address storage, bound -> token contract storage). " +
			"At every revert: all accessors at Snapshot() vs after RevertToSnapshot() (replicas), stale-revision probe, and twin roots (IntermediateRoot+Commit) vs the history without reverted regions; twin roots again at the end. " +
			"Non-trivial: >= 1 revert that undoes >= 1 mutator; distinct by history hash",
		Assumptions: []string{
			"executions of AccountDB are deterministic, so a prefix re-executed on a fresh AccountDB is the state at that point (replicas are used so the observation's own read side effects never disturb the judged run)",
			"the twin performs every surviving operation including reads; operations inside reverted regions (reads included) are absent from the twin, as the statement says",
			"nil and empty byte strings are the same accessor answer",
			"address 0x..03 (journal ripemd exception) is outside the universe; StorageTrie/DataIterator are not observed (StorageTrie copies by root hash and cannot be used between Finalise and Commit)",
			"a revision id taken inside an already reverted region must be rejected (RevertToSnapshot panics: its contract in this code and upstream)",
		},
		MustObserve: []string{"histories", "reverts_checked", "accessor_comparisons", "twin_root_comparisons", "reverted_mutators", "stale_revision_probes",
			"mode_unbound_histories", "mode_bound_histories"},
	})
}
