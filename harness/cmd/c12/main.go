// C12 — failed/static EVM frames leave no trace; per-transaction scratch state
// (access list, transient storage, logs) does not leak between transactions.
//
// Runtime monitoring of the real interpreter / AccountDB / block executor:
//
//	(a) differential twins: a generated tree of nested CALL / CALLCODE /
//	    DELEGATECALL / STATICCALL / CREATE / CREATE2 / AUTHCALL frames with
//	    state-modifying actions is run as is (A) and with every outermost dead
//	    frame (failing, or static) stripped of its body (B); both must end in the
//	    same state root, logs, accounts and accessor answers. A control run per
//	    dead frame (frame revived) proves that the stripped body has an effect.
//	(b) transaction sequences on one AccountDB through VMExecutor (and directly):
//	    right after Prepare the scratch state must be empty, TLOAD must read 0,
//	    the receipt must carry exactly the transaction's own logs.
package main

import (
	"encoding/hex"
	"encoding/json"
	"fmt"
	"os"
	"regexp"
	"strconv"
	"strings"
	"time"

	"verifharness/env"
	"verifharness/mon"
)

type twinCase struct {
	Oracle   string `json:"oracle"` // "twin"
	EntryAll bool   `json:"entry_all,omitempty"`
	Label    string `json:"label,omitempty"`
	Tree     *Node  `json:"tree"`
}

func cleanup(dir string) {
	if strings.Contains(dir, "verif-c12-") {
		os.RemoveAll(dir)
	}
}

func tableCells() []string {
	var out []string
	for _, k := range frameKinds {
		for _, m := range modesOf(k) {
			out = append(out, "cell_"+k+"_"+m)
		}
	}
	return out
}

// runCaseJSON re-runs one recorded case (replay).
func runCaseJSON(r *mon.Run, raw []byte) bool {
	var w struct {
		Oracle   string          `json:"oracle"`
		EntryAll bool            `json:"entry_all"`
		Tree     *Node           `json:"tree"`
		Mode     string          `json:"mode"`
		Legacy   bool            `json:"pre_proposal013"`
		Txs      []sTx           `json:"txs"`
		Case     json.RawMessage `json:"case"`
		LastCase string          `json:"last_case"`
	}
	if json.Unmarshal(raw, &w) != nil {
		return false
	}
	switch {
	case w.Tree != nil:
		entryAll = w.EntryAll
		judgeTree(r, &twinStats{seenSigs: map[string][]string{}}, w.Tree, "replay")
		return true
	case len(w.Txs) > 0:
		n := 0
		judgeScratch(r, &sCase{Oracle: "scratch", Mode: w.Mode, Legacy: w.Legacy, Txs: w.Txs}, &n)
		return true
	case len(w.Case) > 0:
		return runCaseJSON(r, w.Case)
	case w.LastCase != "":
		b, err := hex.DecodeString(w.LastCase)
		return err == nil && runCaseJSON(r, b)
	}
	return false
}

// legacyMain: the fork schedule in which Proposal013 is not active yet — the
// receipt takes the logs RETURNED by the EVM instead of AccountDB.GetLogs.
func legacyMain(r *mon.Run) {
	dir := env.ScratchDir("verif-c12-")
	defer cleanup(dir)
	bootTwin(true)
	n := r.Pick(300, 10000)
	shrinks := 0
	for i := 0; i < n; i++ {
		c := genLegacy(r.Rand("legacy013", i))
		b, _ := json.Marshal(c)
		r.CaseBegin(b)
		judgeScratch(r, c, &shrinks)
	}
	cleanup(dir)
	r.Finish(mon.Coverage{Evaluations: int64(n)})
}

func childMain(r *mon.Run, args []string) {
	shard, _ := strconv.Atoi(args[1])
	nShards, _ := strconv.Atoi(args[2])
	dir := env.ScratchDir("verif-c12-")
	defer cleanup(dir)
	bootTwin(false)
	st := &twinStats{seenSigs: map[string][]string{}}
	evals := int64(0)

	// systematic: frame kind x failure mode x action, depth 1..2
	for i, sc := range genSystematic() {
		if i%nShards != shard {
			continue
		}
		b, _ := json.Marshal(twinCase{Oracle: "twin", EntryAll: true, Label: sc.Kind + "/" + sc.Mode + "/" + sc.Action, Tree: sc.Tree})
		r.CaseBegin(b)
		entryAll = true
		nt := judgeTree(r, st, sc.Tree, "sys")
		entryAll = false
		if strings.HasPrefix(sc.Mode, "precompile-") {
			r.Count("pre_"+sc.Kind+"_"+strings.TrimPrefix(sc.Mode, "precompile-"), 1)
			r.Distinct("precompile_frames", []byte(sc.Kind+sc.Mode+sc.Action))
		}
		if nt {
			r.Distinct("triples_nontrivial", []byte(sc.Kind+"/"+sc.Mode+"/"+sc.Action))
			r.Distinct("actions_nontrivial", []byte(sc.Action))
		}
		evals++
	}
	// random trees
	nRand := r.Pick(20000, 1000000)
	for i := shard; i < nRand; i += nShards {
		rng := r.Rand("twin", i)
		t := genRandomTree(rng, i%3 == 0)
		if maxID(t) > 250 {
			continue
		}
		b, _ := json.Marshal(twinCase{Oracle: "twin", Tree: t})
		r.CaseBegin(b)
		if judgeTree(r, st, t, "rand") && i < 64 {
			r.Sample(map[string]interface{}{"oracle": "twin", "program": t.shape(true)})
		}
		evals++
	}
	// transaction sequences
	nSeq := r.Pick(2000, 100000)
	shrinks := 0
	for i := shard; i < nSeq; i += nShards {
		c := genScratch(r.Rand("scratch", i))
		b, _ := json.Marshal(c)
		r.CaseBegin(b)
		judgeScratch(r, c, &shrinks)
		if i < 2 {
			r.Sample(map[string]interface{}{"oracle": "scratch", "sequence": describeScratch(c)})
		}
		evals++
	}
	cleanup(dir)
	r.Finish(mon.Coverage{Evaluations: evals})
}

func main() {
	r := mon.Start("C12")
	if args, ok := mon.IsChildInvocation(); ok && len(args) >= 3 && args[0] == "shard" {
		childMain(r, args)
		return
	} else if ok && len(args) >= 1 && args[0] == "legacy013" {
		legacyMain(r)
		return
	}
	if p := mon.ReplayArg(); p != "" {
		v, err := mon.LoadReplay(p)
		if err != nil {
			fmt.Println("MACHINERY:", err)
			os.Exit(2)
		}
		dir := env.ScratchDir("verif-c12-")
		bootTwin(regexp.MustCompile(`"pre_proposal013":\s*true`).Match(v.Witness))
		ok := runCaseJSON(r, v.Witness)
		cleanup(dir)
		if !ok {
			fmt.Println("MACHINERY: witness not understood")
			os.Exit(2)
		}
		r.Finish(mon.Coverage{Evaluations: 2, DistinctNontrivial: 2, Rule: "replay of one recorded case"})
	}

	nShards := 16
	specs := make([]mon.ChildSpec, nShards)
	for i := range specs {
		specs[i] = mon.ChildSpec{Label: fmt.Sprintf("shard%d", i), Args: []string{"shard", strconv.Itoa(i), strconv.Itoa(nShards)},
			Timeout: time.Duration(r.Pick(10, 90)) * time.Minute}
	}
	specs = append(specs, mon.ChildSpec{Label: "legacy013", Args: []string{"legacy013"}, Timeout: time.Duration(r.Pick(10, 90)) * time.Minute})
	for _, res := range r.RunChildren(specs, nShards) {
		r.Absorb(res, "C12:child")
	}
	mon.CleanWork()
	if n := r.Get("scratch_refund_counter_nonzero_at_start"); n > 0 {
		r.Note("the gas refund counter of AccountDB was non-zero right after Prepare at the start of %d transactions (Prepare does not reset it, VMExecutor does not finalise between transactions); recorded only — the property text does not name the refund counter and nothing in the node reads it", n)
	}

	must := append(tableCells(),
		"twin_pairs_nontrivial", "twin_revisit_pairs_nontrivial", "twin_multitx_pairs_nontrivial", "twin_controls_effective", "static_subtrees_nontrivial", "twin_frames_failed_observed",
		"scratch_start_observations", "scratch_starts_after_dirty_tx", "scratch_end_transient_nonzero", "scratch_end_accesslist_addr",
		"scratch_end_accesslist_slot", "scratch_end_logs", "scratch_tload_results_checked", "scratch_receipts_checked", "scratch_receipt_logs_seen",
		"scratch_tx_executor", "scratch_tx_direct", "scratch_tx_operator_node_executor", "scratch_operator_node_ok_after_dirty_tx", "legacy013_receipts_checked", "legacy013_receipt_logs_seen")
	for _, k := range []string{kCALL, kCALLCODE, kDELEGATE, kSTATIC} {
		for _, m := range []string{"accepted", "badinput", "lowgas"} {
			must = append(must, "pre_"+k+"_"+m)
		}
	}
	r.Finish(mon.Coverage{
		Evaluations:        r.Get("twin_pairs") + r.Get("scratch_sequences"),
		DistinctNontrivial: int64(r.DistinctCount("twin_nontrivial") + r.DistinctCount("scratch_nontrivial")),
		Rule: "(a) twins: systematic frame-kind x failure-mode x action programs (failing frame at nesting depth 1-2) plus seeded random trees (nesting depth 1-4, any success/failure pattern, " +
			"actions SSTORE new/overwrite/clear, LOG0-4, TSTORE, value CALL to existing/fresh account, CREATE/CREATE2, SELFDESTRUCT, STAKE, UNSTAKE, UNSTAKEALL, AUTHCALL, in-EVM probes, " +
			"re-entering / re-funding an account that self-destructed earlier; creations also fail by returning oversize code or by running out of gas while storing code; programs are one top-level call, one top-level creation, or a sequence of top-level calls on one state object); A = program, B = same deployed code with every outermost dead " +
			"(failing or static) frame skipping its body, selected through the block context so that code and pre-state are identical; B0 = B with the dead CALL/CALLCODE/DELEGATECALL/STATICCALL frames (systematic programs: every kind, creator/authority nonce exempted) not entered at all, " +
			"compared with B to catch residue of the frame entry itself (value transfer, account creation); a failing top-level call is compared with the untouched pre-state; non-trivial = at least one dead frame whose revived control run differs from B; " +
			"table cells counted only when the failing-frame trace observed at the frame hook equals the planned one. " +
			"(b) sequences of 2-5 contract-call transactions on one AccountDB through VMExecutor (2/3) or Prepare+Call (1/3); non-trivial = a transaction starts after a successful one that left transient storage / access list / logs behind; distinct by program / sequence",
		Assumptions: []string{
			"variant selection (twin B, controls) is read by the programs from DIFFICULTY / GASPRICE; the block context is not part of the state, so code and pre-state of A and B are bit-identical",
			"programs never observe gas, call results or return data, so the different gas use of a stripped body is invisible; pairs in which an unplanned out-of-gas appears are discarded (counter twin_discarded_gas_skew)",
			"storage slots are not added to the access list by this node's opcodes (EIP-2929 gas functions are disabled); the harness warms slots through StateDB.AddSlotToAccessList during a transaction to exercise Prepare's reset",
			"the refund counter is only recorded (scratch_refund_counter_nonzero_at_start): the property text does not name it and no code reads it",
		},
		MustObserve: must,
	})
}
