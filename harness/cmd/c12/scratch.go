package main

// Oracle (b): per-transaction scratch state. A sequence of contract-call
// transactions is executed on ONE AccountDB, either through the real block
// executor (core.VerifExecuteBlock -> VMExecutor.Execute -> contractExecutor)
// or directly (Prepare + evm.Call). At the start of every transaction — right
// after AccountDB.Prepare — transient storage, access list and the
// transaction's log list must be empty; the transaction itself returns what
// TLOAD shows it; its receipt must carry exactly its own logs.

import (
	"encoding/hex"
	"encoding/json"
	"fmt"
	"math/big"
	"math/rand"
	"strings"

	"com.tuntun.rangers/node/src/common"
	"com.tuntun.rangers/node/src/core"
	crypto "com.tuntun.rangers/node/src/eth_crypto"
	"com.tuntun.rangers/node/src/middleware/db"
	"com.tuntun.rangers/node/src/middleware/types"
	"com.tuntun.rangers/node/src/service"
	"com.tuntun.rangers/node/src/storage/account"
	"com.tuntun.rangers/node/src/utility"
	"com.tuntun.rangers/node/src/vm"

	"verifharness/env"
	"verifharness/mon"
)

type sTx struct {
	Type     int32    `json:"type"` // 200 contract call, 188 wrapped ETH transaction
	Disp     int      `json:"disp"` // dispatcher contract 0/1 (transient storage is per contract)
	Ops      []Item   `json:"ops"`
	Node     bool     `json:"operator_node,omitempty"` // TransactionTypeOperatorNode: its executor calls the main-node contract (dispatcher 2) itself
	Fail     bool     `json:"fail,omitempty"`          // the script reverts at its end
	AddSlots []uint64 `json:"add_slots,omitempty"`     // slots the harness warms through the StateDB interface during the tx
}

type sCase struct {
	Oracle string `json:"oracle"`                    // "scratch"
	Mode   string `json:"mode"`                      // "executor" | "direct"
	Legacy bool   `json:"pre_proposal013,omitempty"` // fork schedule with Proposal013 not yet active: receipts take the logs returned by the EVM
	Txs    []sTx  `json:"txs"`
}

const nDisp = 3

// dispatcher 2 lives at common.MainNodeContract(): the contract the OperatorNode executor runs through the EVM.
func dispAddr(i int) common.Address {
	if i == 2 {
		return common.MainNodeContract()
	}
	return patAddr(0x04, i)
}

var nodeSelector = []byte{0x41, 0x2a, 0x5a, 0x6d}

func scriptAddr(i int) common.Address { return patAddr(0x04, 16+i) }

// dispatcher: mem[0..128) = TLOAD(0..3); DELEGATECALL the script named by
// calldata word 0; success -> RETURN(0,128), failure -> REVERT(0,128).
func dispatcherCode() []byte {
	a := &Asm{}
	lNode := a.NewLabel()
	a.Op(opCALLDATASIZE, opPUSH1, 4, opEQ).PushLabel(lNode).Op(opJUMPI)
	for k := 0; k < nTSlots; k++ {
		a.Push(uint64(k)).Op(opTLOAD).Push(uint64(32 * k)).Op(opMSTORE)
	}
	push0(a, 4)
	a.Op(opPUSH1, 0, opCALLDATALOAD).PushBytes([]byte{1, 0, 0, 0, 0, 0}).Op(opDELEGATECALL)
	ok := a.NewLabel()
	a.PushLabel(ok).Op(opJUMPI)
	a.Op(opPUSH1, 128, opPUSH1, 0, opREVERT)
	a.Mark(ok).Op(opPUSH1, 128, opPUSH1, 0, opRETURN)
	// main-node routine (4-byte selector): three logs carrying TLOAD(0..2), leave transient storage and a
	// warmed address behind, fourth log carries the origin (the executor reads the miner account from it)
	a.Mark(lNode)
	for k := 0; k < 3; k++ {
		a.Push(uint64(k)).Op(opTLOAD, opPUSH1, 0, opMSTORE, opPUSH1, 32, opPUSH1, 0, opLOG0)
	}
	a.Op(opPUSH1, 0x5e, opPUSH1, 1, opTSTORE)
	a.Op(opPUSH1, 0, opPUSH1, 0, opPUSH1, 0, opCREATE, opPOP)
	a.Op(opORIGIN, opPUSH1, 0, opMSTORE, opPUSH1, 32, opPUSH1, 0, opLOG0, opSTOP)
	return a.Bytes()
}

func logTag(txi, seq int) uint64 { return uint64(txi*16 + seq) }

// scriptNode turns the ops of one transaction into a frame body (run by DELEGATECALL in the dispatcher's context).
func scriptNode(txi int, t sTx) (*Node, int) {
	n := &Node{ID: 16 + txi, Kind: kDELEGATE, End: "stop"}
	if t.Fail {
		n.End = "revert"
	}
	logs := 0
	for j, op := range t.Ops {
		it := op
		switch op.Op {
		case "log":
			it.B = logTag(txi, logs)
			logs++
		case "create":
			it = leafChild(kCREATE, "return", 100+txi*8+j, 0, Item{Op: "sstore", A: 1, B: 5})
		case "suicide":
			it = leafChild(kCALL, "selfdestruct", 100+txi*8+j, 0)
		case "revcall": // a callee that logs and then reverts; the script carries on
			it = leafChild(kCALL, "revert", 100+txi*8+j, 0, Item{Op: "log", A: 1, B: logTag(txi, 15)})
		}
		n.Items = append(n.Items, it)
	}
	return n, logs
}

type scratchObs struct {
	Transient []string `json:"transient,omitempty"`
	AccAddr   []string `json:"access_addresses,omitempty"`
	AccSlot   []string `json:"access_slots,omitempty"`
	Logs      int      `json:"logs_for_tx"`
	Refund    uint64   `json:"refund"`
}

func (o *scratchObs) empty() bool {
	return len(o.Transient) == 0 && len(o.AccAddr) == 0 && len(o.AccSlot) == 0 && o.Logs == 0
}

func scratchUniverse(n int) []common.Address {
	var u []common.Address
	for d := 0; d < nDisp; d++ {
		u = append(u, dispAddr(d))
		for k := uint64(0); k < 10; k++ {
			u = append(u, crypto.CreateAddress(dispAddr(d), k))
		}
	}
	for i := 0; i < n; i++ {
		u = append(u, scriptAddr(i))
		for j := 0; j < 8; j++ {
			u = append(u, nodeAddr(100+i*8+j))
		}
	}
	return u
}

func observeScratch(adb *account.AccountDB, uni []common.Address, txHash common.Hash) scratchObs {
	var o scratchObs
	for d := 0; d < nDisp; d++ {
		for k := 0; k < nTSlots; k++ {
			if v := adb.GetTransientState(dispAddr(d), h32(uint64(k))); v != (common.Hash{}) {
				o.Transient = append(o.Transient, fmt.Sprintf("dispatcher%d[%d]=%s", d, k, strings.TrimLeft(hex.EncodeToString(v[:]), "0")))
			}
		}
		for k := 0; k < nSlots; k++ {
			if _, ok := adb.SlotInAccessList(dispAddr(d), h32(uint64(k))); ok {
				o.AccSlot = append(o.AccSlot, fmt.Sprintf("dispatcher%d[%d]", d, k))
			}
		}
	}
	for _, a := range uni {
		if adb.AddressInAccessList(a) {
			o.AccAddr = append(o.AccAddr, fmt.Sprintf("%x", a[:]))
		}
	}
	o.Logs = len(adb.GetLogs(txHash))
	o.Refund = adb.GetRefund()
	return o
}

type scratchTxResult struct {
	Start, End scratchObs
	Ran        bool
	OK         bool
	TLoad      []string // the four words the transaction itself read with TLOAD (success only)
	ReceiptLog []string // tags of the logs in the receipt
	ReceiptBad []string // problems with the receipt's logs
	ResultLogs []string // tags of the logs in the executor's result JSON
}

type scratchRun struct {
	Tx       []scratchTxResult
	Expected []int // number of logs each tx emits when it succeeds
}

func callWord(a common.Address) []byte {
	w := make([]byte, 32)
	copy(w[12:], a.Bytes())
	return w
}

// tagOfLog: logs of the main-node routine are recognised by emitter and untagged data.
func tagOfLog(l *types.Log) string {
	t := tagOfLogData(l.Data)
	if strings.HasPrefix(t, "data=") && l.Address == common.MainNodeContract() && len(l.Data) == 32 {
		return "node:" + strings.TrimLeft(hex.EncodeToString(l.Data), "0")
	}
	return t
}

func nodeTags() []string {
	return []string{"node:", "node:", "node:", "node:" + strings.TrimLeft(hex.EncodeToString(originAddr[:]), "0")}
}

func tagOfLogData(d []byte) string {
	if len(d) != 32 {
		return fmt.Sprintf("data=%x", d)
	}
	v := new(big.Int).SetBytes(d).Uint64()
	if v&0xffff0000 != 0xabcd0000 {
		return fmt.Sprintf("data=%x", d)
	}
	v &= 0xffff
	return fmt.Sprintf("tx%d.log%d", v/16, v%16)
}

func runScratch(c *sCase) *scratchRun {
	mem, _ := db.NewMemDatabase()
	adb, err := account.NewAccountDB(common.Hash{}, account.NewDatabase(mem))
	if err != nil {
		panic(err)
	}
	adb.SetBalance(originAddr, new(big.Int).Lsh(big.NewInt(1), 100))
	dc := dispatcherCode()
	for d := 0; d < nDisp; d++ {
		adb.SetCode(dispAddr(d), dc)
		adb.SetBalance(dispAddr(d), big.NewInt(1000000))
		adb.SetState(dispAddr(d), h32(0), h32(0x11))
		adb.SetState(dispAddr(d), h32(1), h32(0x22))
	}
	run := &scratchRun{Tx: make([]scratchTxResult, len(c.Txs))}
	for _, t := range c.Txs {
		if t.Node { // the OperatorNode executor wants a miner bound to the source
			m := &types.Miner{Id: minerIDFor(originAddr), PublicKey: []byte{1}, VrfPublicKey: []byte{2}, ApplyHeight: 1,
				Status: common.MinerStatusNormal, Type: common.MinerTypeValidator, Stake: 1000, Account: originAddr.Bytes()}
			service.MinerManagerImpl.UpdateMiner(m, adb, true)
			break
		}
	}
	for i, t := range c.Txs {
		if t.Node {
			run.Expected = append(run.Expected, 4)
			continue
		}
		n, logs := scriptNode(i, t)
		comp := &compiled{deploy: map[common.Address][]byte{}, ctxs: map[common.Address]bool{}, miners: map[common.Address]bool{}, noGuards: true}
		da := dispAddr(t.Disp)
		code := comp.body(n, &da, 1, chainID)
		adb.SetCode(scriptAddr(i), code)
		for a, cd := range comp.deploy {
			adb.SetCode(a, cd)
		}
		run.Expected = append(run.Expected, logs)
	}
	adb.IntermediateRoot(false)
	uni := scratchUniverse(len(c.Txs))

	hashes := make([]common.Hash, len(c.Txs))
	txs := make([]*types.Transaction, len(c.Txs))
	for i, t := range c.Txs {
		cd, _ := json.Marshal(types.ContractData{GasPrice: "1000000000", GasLimit: "200000000", TransferValue: "0", AbiData: common.ToHex(callWord(scriptAddr(i)))})
		tx := &types.Transaction{Source: originAddr.GetHexString(), Target: dispAddr(t.Disp).GetHexString(), Type: t.Type,
			Data: string(cd), Nonce: uint64(i), Time: fmt.Sprintf("c12-%d", i), ChainId: common.ChainId(blockHeight)}
		if t.Node {
			tx.Type, tx.Target, tx.Data = types.TransactionTypeOperatorNode, "", ""
		}
		tx.Hash = tx.GenHash()
		txs[i], hashes[i] = tx, tx.Hash
	}

	warm := func(i int) {
		for _, s := range c.Txs[i].AddSlots {
			adb.AddSlotToAccessList(dispAddr(c.Txs[i].Disp), h32(s))
		}
	}

	if c.Mode == "direct" {
		for i := range c.Txs {
			res := &run.Tx[i]
			adb.Prepare(hashes[i], common.Hash{}, i)
			res.Start = observeScratch(adb, uni, hashes[i]) // immediately after Prepare
			res.Ran = true
			warm(i)
			ctx := vmContext(big.NewInt(123), big.NewInt(1000000000), big.NewInt(1700000000))
			evm := vm.NewEVMWithNFT(ctx, adb, adb)
			target, input, gas := dispAddr(c.Txs[i].Disp), callWord(scriptAddr(i)), uint64(200000000)
			if c.Txs[i].Node {
				target, input, gas = dispAddr(2), nodeSelector, 6000000
			}
			ret, _, retLogs, cerr := evm.Call(vm.AccountRef(originAddr), target, input, gas, new(big.Int))
			res.End = observeScratch(adb, uni, hashes[i])
			res.OK = cerr == nil
			if cerr == nil && len(ret) == 32*nTSlots {
				for k := 0; k < nTSlots; k++ {
					res.TLoad = append(res.TLoad, strings.TrimLeft(hex.EncodeToString(ret[32*k:32*k+32]), "0"))
				}
			}
			for _, l := range adb.GetLogs(hashes[i]) {
				checkOwnLog(res, l, i, hashes[i], false, c.Txs[i].Node)
			}
			nodeTLoad(res, c.Txs[i].Node)
			for _, l := range retLogs {
				res.ResultLogs = append(res.ResultLogs, tagOfLogData(l.Data))
			}
		}
		return run
	}

	// executor mode: the k-th depth-1 frame entered is the k-th transaction
	k := -1
	vm.VerifFrameHook = func(enter bool, depth int, gas uint64, memLen int, err error) {
		if depth != 1 {
			return
		}
		if enter {
			k++
			if k < len(run.Tx) {
				run.Tx[k].Start = observeScratch(adb, uni, hashes[k])
				run.Tx[k].Ran = true
				warm(k)
			}
		} else if k >= 0 && k < len(run.Tx) {
			run.Tx[k].End = observeScratch(adb, uni, hashes[k])
		}
	}
	defer installTraceHook()
	block := &types.Block{Header: env.Header(blockHeight, []byte{1}, utility.GetTime()), Transactions: txs}
	_, _, executed, receipts := core.VerifExecuteBlock(adb, block, "testing")
	for i := range c.Txs {
		res := &run.Tx[i]
		var rc *types.Receipt
		for j, tx := range executed {
			if tx.Hash == hashes[i] && j < len(receipts) {
				rc = receipts[j]
			}
		}
		if rc == nil {
			res.ReceiptBad = append(res.ReceiptBad, "no receipt")
			continue
		}
		res.OK = rc.Status == types.ReceiptStatusSuccessful
		for _, l := range rc.Logs {
			checkOwnLog(res, l, i, hashes[i], c.Legacy, c.Txs[i].Node)
		}
		nodeTLoad(res, c.Txs[i].Node)
		if !c.Legacy { // the state's log list of this transaction must be what its receipt was given
			var bucket []string
			for _, l := range adb.GetLogs(hashes[i]) {
				bucket = append(bucket, tagOfLog(l))
			}
			if !sameStrings(bucket, res.ReceiptLog) {
				res.ReceiptBad = append(res.ReceiptBad, fmt.Sprintf("after the block GetLogs(hash of this transaction) holds %v", bucket))
			}
		}
		if res.OK {
			var m struct {
				Result string       `json:"result"`
				Logs   []*types.Log `json:"logs"`
			}
			if json.Unmarshal([]byte(rc.Msg), &m) == nil {
				ret := common.FromHex(m.Result)
				if len(ret) == 32*nTSlots {
					for q := 0; q < nTSlots; q++ {
						res.TLoad = append(res.TLoad, strings.TrimLeft(hex.EncodeToString(ret[32*q:32*q+32]), "0"))
					}
				}
				for _, l := range m.Logs {
					res.ResultLogs = append(res.ResultLogs, tagOfLogData(l.Data))
				}
			}
		}
	}
	return run
}

// nodeTLoad: an OperatorNode transaction reports its TLOADs in the data of its first three logs.
func nodeTLoad(res *scratchTxResult, node bool) {
	if node && len(res.ReceiptLog) >= 3 {
		for _, t := range res.ReceiptLog[:3] {
			res.TLoad = append(res.TLoad, strings.TrimPrefix(t, "node:"))
		}
	}
}

func checkOwnLog(res *scratchTxResult, l *types.Log, i int, h common.Hash, legacy, node bool) {
	tag := tagOfLog(l)
	res.ReceiptLog = append(res.ReceiptLog, tag)
	if l.TxHash != h && !legacy { // before Proposal013 Prepare is not called and logs carry no transaction hash
		res.ReceiptBad = append(res.ReceiptBad, fmt.Sprintf("%s carries tx hash %x", tag, l.TxHash[:4]))
	}
	own := fmt.Sprintf("tx%d.", i)
	if node {
		own = "node:"
	}
	if !strings.HasPrefix(tag, own) {
		res.ReceiptBad = append(res.ReceiptBad, fmt.Sprintf("%s was emitted by another transaction", tag))
	}
}

type scratchFinding struct {
	Sig, What string
	Tx        int
}

func expectedTags(i, n int) []string {
	var out []string
	for s := 0; s < n; s++ {
		out = append(out, fmt.Sprintf("tx%d.log%d", i, s))
	}
	return out
}

// judgeScratchRun applies the oracle to one executed sequence.
func judgeScratchRun(c *sCase, run *scratchRun) []scratchFinding {
	var fs []scratchFinding
	for i := range c.Txs {
		res := &run.Tx[i]
		if !res.Ran {
			continue
		}
		if c.Legacy { // only the receipt is judged in the pre-Proposal013 schedule
			want := 0
			if res.OK {
				want = run.Expected[i]
			}
			if len(res.ReceiptBad) > 0 || !sameStrings(res.ReceiptLog, expectedTags(i, want)) {
				fs = append(fs, scratchFinding{"C12:scratch:receipt-logs-mismatch:pre-proposal013",
					fmt.Sprintf("fork schedule before Proposal013: receipt of transaction %d (success=%v) lists logs %v %v, the transaction emitted %v", i, res.OK, res.ReceiptLog, res.ReceiptBad, expectedTags(i, want)), i})
			}
			continue
		}
		leak := false
		if len(res.Start.Transient) > 0 {
			leak = true
			fs = append(fs, scratchFinding{"C12:scratch:transient-storage-survives-prepare",
				fmt.Sprintf("right after Prepare for transaction %d (%s mode) transient storage still holds %v written by an earlier transaction; the transaction's own TLOADs returned %v",
					i, c.Mode, res.Start.Transient, res.TLoad), i})
		}
		if len(res.Start.AccAddr) > 0 || len(res.Start.AccSlot) > 0 {
			fs = append(fs, scratchFinding{"C12:scratch:access-list-survives-prepare",
				fmt.Sprintf("right after Prepare for transaction %d the access list still holds addresses %v slots %v", i, res.Start.AccAddr, res.Start.AccSlot), i})
		}
		if res.Start.Logs > 0 {
			fs = append(fs, scratchFinding{"C12:scratch:logs-present-before-execution",
				fmt.Sprintf("GetLogs(hash of transaction %d) already has %d logs before it runs", i, res.Start.Logs), i})
		}
		if res.OK && res.TLoad != nil && !leak {
			for k, w := range res.TLoad {
				if w != "" {
					fs = append(fs, scratchFinding{"C12:scratch:tload-sees-earlier-transaction",
						fmt.Sprintf("transaction %d read TLOAD(%d)=%s although no transaction-local TSTORE preceded it", i, k, w), i})
					break
				}
			}
		}
		if len(res.ReceiptBad) > 0 {
			fs = append(fs, scratchFinding{"C12:scratch:receipt-logs-not-own", fmt.Sprintf("receipt of transaction %d: %v (logs %v)", i, res.ReceiptBad, res.ReceiptLog), i})
		} else {
			want := 0
			if res.OK {
				want = run.Expected[i]
			}
			exp := expectedTags(i, want)
			if c.Txs[i].Node && res.OK {
				exp = nodeTags()
				if leak && len(res.ReceiptLog) == 4 { // the leaked TLOAD values are already reported above
					exp = append(append([]string{}, res.ReceiptLog[:3]...), exp[3])
				}
			}
			if !sameStrings(res.ReceiptLog, exp) {
				fs = append(fs, scratchFinding{"C12:scratch:receipt-logs-mismatch",
					fmt.Sprintf("receipt of transaction %d (success=%v) lists logs %v, the transaction emitted %v", i, res.OK, res.ReceiptLog, exp), i})
			}
		}
	}
	return fs
}

func hasSig(fs []scratchFinding, sig string) bool {
	for _, f := range fs {
		if f.Sig == sig {
			return true
		}
	}
	return false
}

// shrinkScratch drops transactions / ops while the finding persists.
func shrinkScratch(c *sCase, sig string) *sCase {
	cur := *c
	still := func(x *sCase) bool {
		defer func() { recover() }()
		return hasSig(judgeScratchRun(x, runScratch(x)), sig)
	}
	for changed := true; changed; {
		changed = false
		for i := len(cur.Txs) - 1; i >= 0 && len(cur.Txs) > 1; i-- {
			t := cur
			t.Txs = append(append([]sTx{}, cur.Txs[:i]...), cur.Txs[i+1:]...)
			if still(&t) {
				cur, changed = t, true
			}
		}
		for i := range cur.Txs {
			for j := len(cur.Txs[i].Ops) - 1; j >= 0; j-- {
				t := cur
				t.Txs = append([]sTx{}, cur.Txs...)
				t.Txs[i].Ops = append(append([]Item{}, cur.Txs[i].Ops[:j]...), cur.Txs[i].Ops[j+1:]...)
				if still(&t) {
					cur, changed = t, true
				}
			}
			if len(cur.Txs[i].AddSlots) > 0 {
				t := cur
				t.Txs = append([]sTx{}, cur.Txs...)
				t.Txs[i].AddSlots = nil
				if still(&t) {
					cur, changed = t, true
				}
			}
		}
	}
	return &cur
}

type scratchWitness struct {
	Case    *sCase `json:"case"`
	Minimal *sCase `json:"minimal,omitempty"`
	Tx      int    `json:"observed_at_tx"`
}

func judgeScratch(r *mon.Run, c *sCase, shrinks *int) {
	r.Count("scratch_sequences", 1)
	var run *scratchRun
	if r.Guard("C12:scratch", c, func() { run = runScratch(c) }) {
		return
	}
	left := false
	nontrivial := false
	for i := range c.Txs {
		res := &run.Tx[i]
		if !res.Ran {
			r.Count("scratch_tx_not_executed", 1)
			continue
		}
		if c.Legacy {
			r.Count("legacy013_receipts_checked", 1)
			r.Count("legacy013_receipt_logs_seen", int64(len(res.ReceiptLog)))
			continue
		}
		r.Count("scratch_start_observations", 1)
		r.Count("scratch_tx_"+c.Mode, 1)
		if c.Txs[i].Node {
			r.Count("scratch_tx_operator_node_"+c.Mode, 1)
			if res.OK && left {
				r.Count("scratch_operator_node_ok_after_dirty_tx", 1)
			}
		}
		if left {
			nontrivial = true
			r.Count("scratch_starts_after_dirty_tx", 1)
		}
		if res.Start.Refund != 0 {
			r.Count("scratch_refund_counter_nonzero_at_start", 1)
		}
		if res.OK {
			r.Count("scratch_tx_succeeded", 1)
			if res.TLoad != nil {
				r.Count("scratch_tload_results_checked", 1)
			}
		} else {
			r.Count("scratch_tx_failed", 1)
		}
		r.Count("scratch_receipts_checked", 1)
		r.Count("scratch_receipt_logs_seen", int64(len(res.ReceiptLog)))
		if len(res.End.Transient) > 0 {
			r.Count("scratch_end_transient_nonzero", 1)
		}
		if len(res.End.AccAddr) > 0 {
			r.Count("scratch_end_accesslist_addr", 1)
		}
		if len(res.End.AccSlot) > 0 {
			r.Count("scratch_end_accesslist_slot", 1)
		}
		if res.End.Logs > 0 {
			r.Count("scratch_end_logs", 1)
		}
		if res.End.Refund > 0 {
			r.Count("scratch_end_refund_nonzero", 1)
		}
		if res.OK && !res.End.empty() {
			left = true
		}
	}
	if nontrivial {
		r.Count("scratch_sequences_nontrivial", 1)
		b, _ := json.Marshal(c)
		r.Distinct("scratch_nontrivial", b)
	}
	fs := judgeScratchRun(c, run)
	seen := map[string]bool{}
	for _, f := range fs {
		if seen[f.Sig] {
			continue
		}
		seen[f.Sig] = true
		w := scratchWitness{Case: c, Tx: f.Tx}
		what := f.What
		if *shrinks < 12 {
			*shrinks++
			m := shrinkScratch(c, f.Sig)
			w.Minimal = m
			for _, g := range judgeScratchRun(m, runScratch(m)) {
				if g.Sig == f.Sig {
					what = g.What + fmt.Sprintf(" [minimal sequence: %s]", describeScratch(m))
					break
				}
			}
		}
		r.Violation(f.Sig, what, w)
	}
}

func describeScratch(c *sCase) string {
	var parts []string
	for i, t := range c.Txs {
		var ops []string
		for _, o := range t.Ops {
			switch o.Op {
			case "tstore":
				ops = append(ops, fmt.Sprintf("TSTORE(%d,%d)", o.A, o.B))
			case "sstore":
				ops = append(ops, fmt.Sprintf("SSTORE(%d,%d)", o.A, o.B))
			case "log":
				ops = append(ops, fmt.Sprintf("LOG%d", o.A))
			case "revcall":
				ops = append(ops, "CALL{LOG1;REVERT}")
			default:
				ops = append(ops, o.Op)
			}
		}
		s := fmt.Sprintf("tx%d@dispatcher%d{%s}", i, t.Disp, strings.Join(ops, ";"))
		if t.Node {
			s = fmt.Sprintf("tx%d=OPERATOR_NODE(main-node contract = dispatcher2)", i)
		}
		if t.Fail {
			s += "->REVERT"
		}
		parts = append(parts, s)
	}
	pre := c.Mode
	if c.Legacy {
		pre += ", Proposal013 inactive"
	}
	return pre + ": " + strings.Join(parts, " ; ")
}

func genLegacy(rng *rand.Rand) *sCase {
	c := &sCase{Oracle: "scratch", Mode: "executor", Legacy: true}
	n := 1 + rng.Intn(3)
	for i := 0; i < n; i++ {
		t := sTx{Type: types.TransactionTypeContract, Fail: rng.Intn(8) == 0}
		k := 1 + rng.Intn(5)
		for j := 0; j < k; j++ {
			switch rng.Intn(5) {
			case 0, 1:
				t.Ops = append(t.Ops, Item{Op: "log", A: uint64(rng.Intn(5))})
			case 2, 3:
				t.Ops = append(t.Ops, Item{Op: "revcall"})
			case 4:
				t.Ops = append(t.Ops, Item{Op: "sstore", A: 2, B: uint64(rng.Intn(3))})
			}
		}
		c.Txs = append(c.Txs, t)
	}
	return c
}

func genScratch(rng *rand.Rand) *sCase {
	c := &sCase{Oracle: "scratch", Mode: "executor"}
	if rng.Intn(3) == 0 {
		c.Mode = "direct"
	}
	n := 2 + rng.Intn(4)
	for i := 0; i < n; i++ {
		t := sTx{Type: types.TransactionTypeContract, Disp: 0}
		if rng.Intn(4) == 0 {
			t.Type = types.TransactionTypeETHTX
		}
		switch rng.Intn(10) {
		case 0, 1:
			t.Disp = 1
		case 2, 3, 4:
			t.Disp = 2
		}
		if i > 0 && rng.Intn(5) == 0 { // a non-contract transaction whose executor reaches the EVM
			t = sTx{Type: types.TransactionTypeOperatorNode, Disp: 2, Node: true}
			c.Txs = append(c.Txs, t)
			continue
		}
		t.Fail = rng.Intn(6) == 0
		k := rng.Intn(6)
		for j := 0; j < k; j++ {
			switch rng.Intn(9) {
			case 0, 1, 2:
				t.Ops = append(t.Ops, Item{Op: "tstore", A: uint64(rng.Intn(nTSlots)), B: uint64(1 + rng.Intn(250))})
			case 3:
				t.Ops = append(t.Ops, Item{Op: "sstore", A: uint64(rng.Intn(4)), B: uint64(rng.Intn(3))})
			case 4, 5:
				t.Ops = append(t.Ops, Item{Op: "log", A: uint64(rng.Intn(5))})
			case 6:
				t.Ops = append(t.Ops, Item{Op: "create"})
			case 7:
				t.Ops = append(t.Ops, Item{Op: "suicide"})
			case 8:
				if rng.Intn(2) == 0 {
					t.Ops = append(t.Ops, Item{Op: "xfer", A: uint64(rng.Intn(nEOA)), B: 1})
				} else {
					t.Ops = append(t.Ops, Item{Op: "revcall"})
				}
			}
		}
		if rng.Intn(3) == 0 {
			t.AddSlots = []uint64{uint64(rng.Intn(4))}
		}
		c.Txs = append(c.Txs, t)
	}
	return c
}
