package main

// Program trees: a node is one EVM frame (entered by CALL / CALLCODE /
// DELEGATECALL / STATICCALL / CREATE / CREATE2 / AUTHCALL), its body a list of
// effects and child frames, its End how the frame terminates. The tree is
// compiled to one contract per CALL-like node (CREATE-like nodes become init
// code embedded in their parent) and run by the real interpreter.

import (
	"crypto/ecdsa"
	"encoding/binary"
	"encoding/json"
	"fmt"
	"math/big"
	"math/rand"
	"sort"
	"strings"

	"com.tuntun.rangers/node/src/common"
	crypto "com.tuntun.rangers/node/src/eth_crypto"
)

const (
	kSEQ      = "SEQ" // root only: its children are separate top-level calls on one state object
	kCALL     = "CALL"
	kCALLCODE = "CALLCODE"
	kDELEGATE = "DELEGATECALL"
	kSTATIC   = "STATICCALL"
	kCREATE   = "CREATE"
	kCREATE2  = "CREATE2"
	kAUTHCALL = "AUTHCALL"
)

var frameKinds = []string{kCALL, kCALLCODE, kDELEGATE, kSTATIC, kCREATE, kCREATE2, kAUTHCALL}

// failure modes (End values that make the frame fail); "static" is the table
// column for "write refused inside a static context".
var failModes = []string{"revert", "invalid", "oog", "stack", "badjump"}
var tableModes = []string{"revert", "invalid", "oog", "stack", "badjump", "static"}

type Node struct {
	ID    int    `json:"id"`
	Kind  string `json:"kind"`
	Val   uint64 `json:"val,omitempty"`
	Items []Item `json:"items,omitempty"`
	End   string `json:"end"` // stop return selfdestruct | revert invalid oog stack stackover badjump oversize codestore
	Ben   int    `json:"ben,omitempty"`
	Gas   uint64 `json:"gas,omitempty"`        // gas requested at the call site (0: the level's default)
	Pre   int    `json:"precompile,omitempty"` // callee is the precompiled contract at this address (no body)
	In    string `json:"input,omitempty"`      // hex input handed to the precompile
	Pay   bool   `json:"payable,omitempty"`    // called with value: accepts it and stops without running the body
}

type Item struct {
	Op    string `json:"op"` // sstore log tstore xfer stake unstake unstakeall tprobe sprobe bprobe cprobe hprobe child again(A=node id, B=value)
	A     uint64 `json:"a,omitempty"`
	B     uint64 `json:"b,omitempty"`
	Child *Node  `json:"child,omitempty"`
}

func isCreateKind(k string) bool { return k == kCREATE || k == kCREATE2 }
func isFailEnd(e string) bool {
	switch e {
	case "revert", "invalid", "oog", "stack", "stackover", "badjump", "oversize", "codestore", "prefail":
		return true
	}
	return false
}
func modeOfEnd(e string) string {
	if e == "stackover" {
		return "stack"
	}
	return e
}

// isWrite: effects that modify state (refused, per the property, in a static context).
func isWrite(it Item) bool { return it.Op != "child" && it.Op != "again" }

// silentEnd: creation failures decided after the init code returned (no failing frame exit at the hook).
// "prefail": a precompiled contract rejects its input or gets too little gas (never reaches the interpreter).
func silentEnd(e string) bool { return e == "oversize" || e == "codestore" || e == "prefail" }

const preInOffset = 0x10000 // memory region used for precompile inputs only

const (
	trampolineGas = 40000000 // gas given to the frame that performs a creation meant to fail at code storage
	codestoreLen  = 7000     // 7000 bytes * 200 * 30 gas > trampolineGas
	oversizeLen   = 245761   // vm.MaxCodeSize + 1
)

func (n *Node) clone() *Node {
	c := *n
	c.Items = make([]Item, len(n.Items))
	for i, it := range n.Items {
		c.Items[i] = it
		if it.Child != nil {
			c.Items[i].Child = it.Child.clone()
		}
	}
	return &c
}

func (n *Node) walk(f func(n *Node, parent *Node, depth int, static bool), parent *Node, depth int, static bool) {
	f(n, parent, depth, static)
	st := static || n.Kind == kSTATIC
	for _, it := range n.Items {
		if it.Child != nil {
			it.Child.walk(f, n, depth+1, st)
		}
	}
}

func (n *Node) find(id int) *Node {
	var out *Node
	n.walk(func(x, _ *Node, _ int, _ bool) {
		if x.ID == id {
			out = x
		}
	}, nil, 0, false)
	return out
}

func (n *Node) countItems() int {
	c := 0
	n.walk(func(x, _ *Node, _ int, _ bool) { c += len(x.Items) }, nil, 0, false)
	return c
}

// ---------------------------------------------------------------------------
// addresses

func patAddr(tag byte, id int) common.Address {
	var a common.Address
	a[0], a[1], a[2] = 0xc1, 0x20, tag
	binary.BigEndian.PutUint16(a[18:], uint16(id))
	return a
}

func nodeAddr(id int) common.Address { return patAddr(0x01, id) }

var originAddr = patAddr(0x02, 0)

// eoa(i): 0..2 exist (funded) in the base state, 3..5 are fresh.
func eoaAddr(i int) common.Address { return patAddr(0x02, 1+i) }

const nEOA = 6

type authority struct {
	key  *ecdsa.PrivateKey
	addr common.Address
}

var authCache = map[int]*authority{}

func authorityFor(id int) *authority {
	if a, ok := authCache[id]; ok {
		return a
	}
	d := crypto.Keccak256([]byte(fmt.Sprintf("c12-authority-%d", id)))
	k, err := crypto.ToECDSA(d)
	if err != nil {
		panic(err)
	}
	a := &authority{key: k, addr: crypto.PubkeyToAddress(k.PublicKey)}
	authCache[id] = a
	return a
}

type sigKey struct {
	id  int
	ctx common.Address
}

var sigCache = map[sigKey][4][32]byte{}

// authWords returns v, r, s, commit for AUTH executed by invoker ctx on behalf of authority id.
func authWords(id int, ctx common.Address, chainID *big.Int) [4][32]byte {
	if w, ok := sigCache[sigKey{id, ctx}]; ok {
		return w
	}
	au := authorityFor(id)
	var commit [32]byte
	copy(commit[:], crypto.Keccak256([]byte(fmt.Sprintf("commit-%d", id))))
	msg := make([]byte, 97)
	msg[0] = 0x03
	cb := chainID.Bytes()
	copy(msg[33-len(cb):33], cb)
	copy(msg[65-20:65], ctx.Bytes())
	copy(msg[65:], commit[:])
	h := crypto.Keccak256(msg)
	sig, err := crypto.Sign(h, au.key)
	if err != nil {
		panic(err)
	}
	var w [4][32]byte
	w[0][31] = sig[64] + 27
	copy(w[1][:], sig[0:32])
	copy(w[2][:], sig[32:64])
	w[3] = commit
	sigCache[sigKey{id, ctx}] = w
	return w
}

// probeAddr decodes the address operand of balance/code probes.
func probeAddr(a uint64) common.Address {
	if a >= 100 {
		return nodeAddr(int(a - 100))
	}
	return eoaAddr(int(a % nEOA))
}

// ---------------------------------------------------------------------------
// compilation

// levelGas is the gas requested for a child entered from a frame at this level
// (root = level 0, run with 2^62). A factor 2^8 between levels leaves room for
// several failing children (which burn what they were given) and for one failing
// CREATE (which burns 63/64 of what is left).
func levelGas(childLevel int) uint64 {
	if childLevel > 6 {
		childLevel = 6
	}
	return uint64(1) << uint(62-8*childLevel)
}

const rootGas = uint64(1) << 62

type compiled struct {
	deploy   map[common.Address][]byte // CALL-like nodes (incl. the root when it is a CALL)
	rootInit []byte                    // root init code when the root is a CREATE
	inits    map[int][]byte            // SEQ root: init code of top-level creations by node id
	ctxs     map[common.Address]bool   // statically known context addresses
	miners   map[common.Address]bool   // contexts that execute STAKE/UNSTAKE
	auths    []common.Address
	noGuards bool // scratch scripts: no variant selectors (the block context is the executor's)
}

func compileTree(root *Node, chainID *big.Int) *compiled {
	c := &compiled{deploy: map[common.Address][]byte{}, ctxs: map[common.Address]bool{}, miners: map[common.Address]bool{}, inits: map[int][]byte{}}
	if root.Kind == kSEQ {
		for _, it := range root.Items {
			ch := it.Child
			if ch == nil {
				continue
			}
			if isCreateKind(ch.Kind) {
				c.inits[ch.ID] = c.body(ch, nil, 0, chainID)
			} else {
				a := nodeAddr(ch.ID)
				c.ctxs[a] = true
				c.deploy[a] = c.body(ch, &a, 0, chainID)
			}
		}
	} else if isCreateKind(root.Kind) {
		c.rootInit = c.body(root, nil, 0, chainID)
	} else {
		a := nodeAddr(root.ID)
		c.ctxs[a] = true
		c.deploy[a] = c.body(root, &a, 0, chainID)
	}
	return c
}

func push0(a *Asm, n int) {
	for i := 0; i < n; i++ {
		a.Op(opPUSH1, 0)
	}
}

// body assembles the code of one frame. ctx is the address whose storage the
// frame works on when statically known (nil below a CREATE-like frame).
func (c *compiled) body(n *Node, ctx *common.Address, level int, chainID *big.Int) []byte {
	a := &Asm{}
	if n.Pay { // value sent: accept it, do nothing
		lRun := a.NewLabel()
		a.Op(opCALLVALUE, opISZERO).PushLabel(lRun).Op(opJUMPI, opSTOP)
		a.Mark(lRun)
	}
	lEnd := -1
	if isDead(n) && !c.noGuards { // variant selector: skip the body when bit ID of DIFFICULTY is set
		lEnd = a.NewLabel()
		envBit(a, opDIFFICULTY, n.ID)
		a.PushLabel(lEnd).Op(opJUMPI)
	}
	for _, it := range n.Items {
		switch it.Op {
		case "sstore":
			a.Push(it.B).Push(it.A).Op(opSSTORE)
		case "tstore":
			a.Push(it.B).Push(it.A).Op(opTSTORE)
		case "log":
			a.Push(it.B|0xabcd0000).Op(opPUSH1, 0, opMSTORE)
			for t := int(it.A); t >= 1; t-- {
				a.Push(uint64(0xa0 + t))
			}
			a.Op(opPUSH1, 32, opPUSH1, 0, byte(opLOG0+int(it.A)))
		case "xfer":
			push0(a, 4)
			a.Push(it.B).PushBytes(eoaAddr(int(it.A%nEOA)).Bytes()).Op(opPUSH1, 0, opCALL, opPOP)
		case "stake", "unstake":
			a.Op(opADDRESS)
			a.PushBytes(new(big.Int).Mul(new(big.Int).SetUint64(it.B), big.NewInt(1e18)).Bytes())
			if it.Op == "stake" {
				a.Op(opSTAKE, opPOP)
			} else {
				a.Op(opUNSTAKE, opPOP)
			}
			if ctx != nil {
				c.miners[*ctx] = true
			}
		case "unstakeall":
			a.Op(opADDRESS, opUNSTAKEALL, opPOP)
			if ctx != nil {
				c.miners[*ctx] = true
			}
		case "again": // call an already defined CALL frame once more (B: value)
			push0(a, 4)
			a.Push(it.B).PushBytes(nodeAddr(int(it.A)).Bytes()).Push(levelGas(level+1)).Op(opCALL, opPOP)
		case "tprobe":
			a.Push(it.A).Op(opTLOAD).Push(it.B).Op(opSSTORE)
		case "sprobe":
			a.Push(it.A).Op(opSLOAD).Push(it.B).Op(opSSTORE)
		case "bprobe":
			a.PushBytes(probeAddr(it.A).Bytes()).Op(opBALANCE).Push(it.B).Op(opSSTORE)
		case "cprobe":
			a.PushBytes(probeAddr(it.A).Bytes()).Op(opEXTCODESIZE).Push(it.B).Op(opSSTORE)
		case "hprobe":
			a.PushBytes(probeAddr(it.A).Bytes()).Op(opEXTCODEHASH).Push(it.B).Op(opSSTORE)
		case "child":
			ch := it.Child
			lNoCall := -1
			if !c.noGuards { // variant selector: bit ID of TIMESTAMP set => the call site is not executed
				lNoCall = a.NewLabel()
				envBit(a, opTIMESTAMP, ch.ID)
				a.PushLabel(lNoCall).Op(opJUMPI)
			}
			if ch.Pre != 0 { // precompiled callee: write the input, call it, ignore the result
				in := common.FromHex("0x" + ch.In)
				for off := 0; off < len(in); off += 32 {
					var w [32]byte
					copy(w[:], in[off:])
					a.PushBytes(w[:]).Push(uint64(preInOffset + off)).Op(opMSTORE)
				}
				a.Op(opPUSH1, 0, opPUSH1, 0).Push(uint64(len(in))).Push(preInOffset)
				if ch.Kind == kCALL || ch.Kind == kCALLCODE {
					a.Push(ch.Val)
				}
				g := levelGas(level + 1)
				if ch.Gas != 0 {
					g = ch.Gas
				}
				a.PushBytes([]byte{byte(ch.Pre)}).Push(g)
				switch ch.Kind {
				case kCALL:
					a.Op(opCALL)
				case kCALLCODE:
					a.Op(opCALLCODE)
				case kDELEGATE:
					a.Op(opDELEGATECALL)
				case kSTATIC:
					a.Op(opSTATICCALL)
				default:
					panic("precompile entered by " + ch.Kind)
				}
				a.Op(opPOP)
				if lNoCall >= 0 {
					a.Mark(lNoCall)
				}
				continue
			}
			switch ch.Kind {
			case kCALL, kCALLCODE, kDELEGATE, kSTATIC:
				addr := nodeAddr(ch.ID)
				cctx := &addr
				if ch.Kind == kCALLCODE || ch.Kind == kDELEGATE {
					cctx = ctx
				} else {
					c.ctxs[addr] = true
				}
				c.deploy[addr] = c.body(ch, cctx, level+1, chainID)
				lCall, lAfter := -1, -1
				if ch.Kind == kSTATIC && c.noGuards {
					panic("static call in a scratch script")
				}
				if ch.Kind == kSTATIC { // control variant: bit ID of GASPRICE set => plain CALL
					lCall, lAfter = a.NewLabel(), a.NewLabel()
					envBit(a, opGASPRICE, ch.ID)
					a.PushLabel(lCall).Op(opJUMPI)
				}
				push0(a, 4)
				if ch.Kind == kCALL || ch.Kind == kCALLCODE {
					a.Push(ch.Val)
				}
				g := levelGas(level + 1)
				if ch.Gas != 0 {
					g = ch.Gas
				}
				a.PushBytes(addr.Bytes()).Push(g)
				switch ch.Kind {
				case kCALL:
					a.Op(opCALL)
				case kCALLCODE:
					a.Op(opCALLCODE)
				case kDELEGATE:
					a.Op(opDELEGATECALL)
				case kSTATIC:
					a.Op(opSTATICCALL)
				}
				a.Op(opPOP)
				if ch.Kind == kSTATIC {
					a.PushLabel(lAfter).Op(opJUMP)
					a.Mark(lCall)
					push0(a, 5)
					a.PushBytes(addr.Bytes()).Push(levelGas(level+1)).Op(opCALL, opPOP)
					a.Mark(lAfter)
				}
			case kCREATE, kCREATE2:
				init := c.body(ch, nil, level+1, chainID)
				d := a.Data(init)
				a.Push(uint64(len(init))).PushDataOff(d).Op(opPUSH1, 0, opCODECOPY)
				if ch.Kind == kCREATE {
					a.Push(uint64(len(init))).Op(opPUSH1, 0).Push(ch.Val).Op(opCREATE, opPOP)
				} else {
					a.Push(uint64(0x5a17_0000+ch.ID)).Push(uint64(len(init))).Op(opPUSH1, 0).Push(ch.Val).Op(opCREATE2, opPOP)
				}
			case kAUTHCALL:
				addr := nodeAddr(ch.ID)
				c.ctxs[addr] = true
				c.deploy[addr] = c.body(ch, &addr, level+1, chainID)
				au := authorityFor(ch.ID)
				c.auths = append(c.auths, au.addr)
				inv := common.Address{}
				if ctx != nil {
					inv = *ctx
				}
				w := authWords(ch.ID, inv, chainID)
				for i := 0; i < 4; i++ {
					a.PushBytes(w[i][:]).Push(uint64(32 * i)).Op(opMSTORE)
				}
				a.Op(opPUSH1, 128, opPUSH1, 0).PushBytes(au.addr.Bytes()).Op(opAUTH, opPOP)
				push0(a, 5) // retLength retOffset argsLength argsOffset valueExt
				a.Push(ch.Val).PushBytes(addr.Bytes()).Push(levelGas(level+1)).Op(opPUSH1, 0, opAUTHCALL, opPOP)
			default:
				panic("unknown kind " + ch.Kind)
			}
			if lNoCall >= 0 {
				a.Mark(lNoCall)
			}
		default:
			panic("unknown op " + it.Op)
		}
	}
	if lEnd >= 0 {
		a.Mark(lEnd)
	}
	okEnd := func(end string) {
		switch end {
		case "stop":
			a.Op(opSTOP)
		case "return":
			if isCreateKind(n.Kind) {
				a.PushBytes([]byte{opPUSH1, byte(n.ID), opSTOP}).Op(opPUSH1, 0, opMSTORE, opPUSH1, 3, opPUSH1, 29, opRETURN)
			} else {
				a.Push(uint64(n.ID)+0x7700).Op(opPUSH1, 0, opMSTORE, opPUSH1, 32, opPUSH1, 0, opRETURN)
			}
		}
	}
	lOk := -1
	if isFailEnd(n.End) && !c.noGuards { // control variant: bit ID of GASPRICE set => the frame succeeds
		lOk = a.NewLabel()
		envBit(a, opGASPRICE, n.ID)
		a.PushLabel(lOk).Op(opJUMPI)
	}
	switch n.End {
	case "stop", "return":
		okEnd(n.End)
	case "selfdestruct":
		a.PushBytes(eoaAddr(n.Ben % nEOA).Bytes()).Op(opSELFDESTRUCT)
	case "revert":
		a.Op(opPUSH1, 0, opPUSH1, 0, opREVERT)
	case "invalid":
		a.Op(opINVALID)
	case "oog":
		a.Op(opPUSH1, 1).PushBytes([]byte{1, 0, 0, 0, 0, 0}).Op(opMSTORE)
	case "stack":
		a.Op(opPOP)
	case "stackover":
		l := a.NewLabel()
		a.Mark(l).Op(opPC).PushLabel(l).Op(opJUMP)
	case "badjump":
		a.PushBytes([]byte{0xff, 0xf0}).Op(opJUMP)
	case "oversize": // creation returns more than MaxCodeSize bytes
		a.Push(oversizeLen).Op(opPUSH1, 0, opRETURN)
	case "codestore": // creation returns code whose storage cost exceeds the gas of its (gas-limited) creator
		a.Push(codestoreLen).Op(opPUSH1, 0, opRETURN)
	default:
		panic("unknown end " + n.End)
	}
	if lOk >= 0 {
		a.Mark(lOk)
		if isCreateKind(n.Kind) {
			okEnd("return")
		} else {
			okEnd("stop")
		}
	}
	return a.Bytes()
}

// envBit leaves bit `id` of the given block-context word (DIFFICULTY / GASPRICE) on the stack.
func envBit(a *Asm, envOp byte, id int) {
	a.Op(envOp).Push(uint64(id)).Op(opSHR, opPUSH1, 1, opAND)
}

// ---------------------------------------------------------------------------
// dead frames, twins, controls

// dead: a frame whose effects must not survive — it fails, or it is (under) a static call.
func isDead(n *Node) bool { return isFailEnd(n.End) || n.Kind == kSTATIC }

type deadInfo struct {
	ID     int
	Kind   string
	Mode   string // table column
	Static bool   // dead because static (End succeeds)
}

// pruneTree returns twin B: every outermost dead frame loses its body (it
// fails immediately in the same way; a static frame returns immediately).
func pruneTree(root *Node) (*Node, []deadInfo) {
	b := root.clone()
	var dead []deadInfo
	var rec func(n *Node)
	rec = func(n *Node) {
		if isDead(n) {
			di := deadInfo{ID: n.ID, Kind: n.Kind, Mode: modeOfEnd(n.End)}
			if !isFailEnd(n.End) {
				di.Static, di.Mode = true, "static"
				n.End = "stop"
			}
			n.Items = nil
			dead = append(dead, di)
			return
		}
		for _, it := range n.Items {
			if it.Child != nil {
				rec(it.Child)
			}
		}
	}
	rec(b)
	return b, dead
}

// masks: the variant selectors. skip: frames that fail / return immediately
// (twin B: every outermost dead frame); rev: frames that are revived (control:
// the whole subtree of one outermost dead frame succeeds, static becomes CALL).
func idMask(ids ...int) *big.Int {
	m := new(big.Int)
	for _, id := range ids {
		m.SetBit(m, id, 1)
	}
	return m
}

func subtreeIDs(n *Node) []int {
	var ids []int
	n.walk(func(x, _ *Node, _ int, _ bool) { ids = append(ids, x.ID) }, nil, 0, false)
	return ids
}

func maxID(n *Node) int {
	m := 0
	for _, id := range subtreeIDs(n) {
		if id > m {
			m = id
		}
	}
	return m
}

// ---------------------------------------------------------------------------
// expected failing-frame trace (used for coverage attribution only, never for a verdict)

type cellHit struct {
	Kind, Mode string
	ID         int
	OuterID    int // outermost dead ancestor (or the frame itself)
}

// authRefused: AUTHCALL inside a static context is refused at the call site
// (as CREATE is) instead of entering a frame that then dies on its first write;
// both readings keep the property, the caller accepts whichever trace matches.
func planTrace(root *Node, authRefused bool) (trace []string, cells []cellHit) {
	var rec func(n *Node, depth int, static bool, outerID int) bool
	fail := func(depth int, class string) {
		trace = append(trace, fmt.Sprintf("%d:%s", depth, class))
	}
	rec = func(n *Node, depth int, static bool, outerID int) bool {
		st := static || n.Kind == kSTATIC
		if outerID < 0 && isDead(n) {
			outerID = n.ID
		}
		hit := func(mode string) {
			if outerID >= 0 {
				cells = append(cells, cellHit{Kind: n.Kind, Mode: mode, ID: n.ID, OuterID: outerID})
			}
		}
		for _, it := range n.Items {
			if it.Op == "again" {
				tg := root.find(int(it.A))
				if st && it.B != 0 {
					fail(depth, "static")
					hit("static")
					return false
				}
				if tg != nil && !(it.B != 0 && tg.Pay) {
					rec(tg, depth+1, st, outerID)
				}
				continue
			}
			if it.Child == nil {
				if st && isWrite(it) {
					fail(depth, "static")
					hit("static")
					return false
				}
				continue
			}
			ch := it.Child
			if st && (isCreateKind(ch.Kind) || (ch.Kind == kCALL && ch.Val != 0) || (ch.Kind == kAUTHCALL && authRefused)) {
				// the creating / value-sending opcode itself is refused in this frame
				fail(depth, "static")
				hit("static")
				if (isCreateKind(ch.Kind) || ch.Kind == kAUTHCALL) && outerID >= 0 {
					cells = append(cells, cellHit{Kind: ch.Kind, Mode: "static", ID: ch.ID, OuterID: outerID})
				}
				return false
			}
			rec(ch, depth+1, st, outerID)
		}
		if isFailEnd(n.End) {
			if !silentEnd(n.End) {
				fail(depth, modeOfEnd(n.End))
			}
			hit(modeOfEnd(n.End))
			return false
		}
		if n.End == "selfdestruct" && st {
			fail(depth, "static")
			hit("static")
			return false
		}
		return true
	}
	if root.Kind == kSEQ {
		for _, it := range root.Items {
			if it.Child != nil {
				rec(it.Child, 1, false, -1)
			} else if it.Op == "again" {
				if tg := root.find(int(it.A)); tg != nil && !(it.B != 0 && tg.Pay) {
					rec(tg, 1, false, -1)
				}
			}
		}
		return
	}
	rec(root, 1, false, -1)
	return
}

// ---------------------------------------------------------------------------
// description / signatures

func (n *Node) shape(top bool) string {
	var parts []string
	for _, it := range n.Items {
		if it.Child != nil {
			parts = append(parts, it.Child.shape(false))
		} else {
			op := it.Op
			if op == "sstore" && it.B == 0 {
				op = "sclear"
			}
			if op == "log" {
				op = fmt.Sprintf("log%d", it.A)
			}
			if op == "again" {
				op = fmt.Sprintf("again#%d", it.A)
				if it.B != 0 {
					op = fmt.Sprintf("fund#%d", it.A)
				}
			}
			parts = append(parts, op)
		}
	}
	s := "[" + strings.Join(parts, ",") + "]"
	if n.Kind == kSEQ {
		return "SEQ" + s
	}
	if top && n.Kind == kCALL && !isFailEnd(n.End) && n.End != "selfdestruct" {
		return s
	}
	if n.Pay {
		return fmt.Sprintf("%s#%d/%s%s", n.Kind, n.ID, n.End, s)
	}
	if n.Pre != 0 {
		return fmt.Sprintf("%s(precompile %d)/%s", n.Kind, n.Pre, n.End)
	}
	return n.Kind + "/" + n.End + s
}

func treeJSON(n *Node) []byte { b, _ := json.Marshal(n); return b }

// leafOps: the effect ops (or, if there are none, the kind/end of leaf frames) of a minimal tree.
func leafOps(n *Node) []string {
	set := map[string]bool{}
	cs := false
	n.walk(func(x, _ *Node, _ int, _ bool) {
		if x.End == "codestore" {
			cs = true
		}
	}, nil, 0, false)
	if cs {
		return []string{"end:codestore"}
	}
	n.walk(func(x, _ *Node, _ int, _ bool) {
		for _, it := range x.Items {
			if it.Child == nil {
				set["op:"+it.Op] = true
			}
		}
	}, nil, 0, false)
	if len(set) == 0 {
		n.walk(func(x, p *Node, _ int, _ bool) {
			if p != nil && len(x.Items) == 0 {
				set["frame:"+x.Kind] = true
			}
		}, nil, 0, false)
	}
	var out []string
	for k := range set {
		out = append(out, k)
	}
	sort.Strings(out)
	return out
}

// removeLeafOps deletes every item matching one of the culprit descriptors.
func removeLeafOps(n *Node, culprits []string) *Node {
	c := n.clone()
	m := map[string]bool{}
	for _, s := range culprits {
		m[s] = true
	}
	if m["end:"+c.End] {
		c.End = "return"
	}
	var rec func(x *Node)
	rec = func(x *Node) {
		var keep []Item
		for _, it := range x.Items {
			if it.Child == nil {
				if m["op:"+it.Op] {
					continue
				}
			} else {
				if m["frame:"+it.Child.Kind] || m["end:"+it.Child.End] {
					continue
				}
				rec(it.Child)
			}
			keep = append(keep, it)
		}
		x.Items = keep
	}
	rec(c)
	return c
}

// ---------------------------------------------------------------------------
// generators

type gen struct {
	rng     *rand.Rand
	nextID  int
	custom  bool  // allow STAKE / UNSTAKE / AUTHCALL
	victims []int // leaf CALL frames defined so far (targets of "again")
}

func (g *gen) id() int { g.nextID++; return g.nextID }

var effectOps = []string{"sstore", "sstore", "sstore", "log", "log", "tstore", "xfer", "xfer", "tprobe", "sprobe", "bprobe", "cprobe", "hprobe"}

func (g *gen) effect(nodeIDs []int, ctxKnown bool) Item {
	r := g.rng
	ops := effectOps
	op := ops[r.Intn(len(ops))]
	if g.custom && r.Intn(5) == 0 {
		op = []string{"stake", "unstake", "stake", "unstake", "unstakeall"}[r.Intn(5)]
		if op == "unstakeall" && !ctxKnown { // fails the frame when the context is no miner
			op = "unstake"
		}
	}
	switch op {
	case "sstore":
		v := uint64(0)
		if r.Intn(3) != 0 {
			v = uint64(1 + r.Intn(250))
		}
		return Item{Op: op, A: uint64(r.Intn(6)), B: v}
	case "log":
		return Item{Op: op, A: uint64(r.Intn(5)), B: uint64(r.Intn(200))}
	case "tstore":
		v := uint64(1 + r.Intn(250))
		if r.Intn(5) == 0 {
			v = 0
		}
		return Item{Op: op, A: uint64(r.Intn(4)), B: v}
	case "xfer":
		return Item{Op: op, A: uint64(r.Intn(nEOA)), B: uint64(1 + r.Intn(9))}
	case "stake", "unstake":
		return Item{Op: op, B: uint64(1 + r.Intn(3))}
	case "unstakeall":
		return Item{Op: op}
	case "tprobe":
		return Item{Op: op, A: uint64(r.Intn(4)), B: uint64(6 + r.Intn(2))}
	case "sprobe":
		return Item{Op: op, A: uint64(r.Intn(6)), B: uint64(6 + r.Intn(2))}
	default: // bprobe cprobe hprobe
		a := uint64(r.Intn(nEOA))
		if len(nodeIDs) > 0 && r.Intn(2) == 0 {
			a = 100 + uint64(nodeIDs[r.Intn(len(nodeIDs))])
		}
		return Item{Op: op, A: a, B: uint64(6 + r.Intn(2))}
	}
}

func (g *gen) end(kind string, failP int) string {
	r := g.rng
	if r.Intn(100) < failP {
		m := failModes[r.Intn(len(failModes))]
		if m == "stack" && r.Intn(8) == 0 {
			m = "stackover"
		}
		return m
	}
	switch x := r.Intn(12); {
	case x == 0:
		return "selfdestruct"
	case x < 5 || isCreateKind(kind):
		return "return"
	}
	return "stop"
}

// node generates a frame at the given level; ctxKnown: the context address is static.
// funded: the frame that enters this one runs in a context with a balance.
func (g *gen) node(kind string, level, maxLevel int, ctxKnown, funded bool, ids *[]int) *Node {
	r := g.rng
	n := &Node{ID: g.id(), Kind: kind, Ben: r.Intn(nEOA)}
	*ids = append(*ids, n.ID)
	if kind == kCALL || kind == kCALLCODE || isCreateKind(kind) || kind == kAUTHCALL {
		if r.Intn(3) == 0 && (funded || kind == kAUTHCALL) { // AUTHCALL is paid by the origin
			n.Val = uint64(1 + r.Intn(9))
		}
	}
	cnt := 1 + r.Intn(5)
	eater := false
	for i := 0; i < cnt; i++ {
		if len(g.victims) > 0 && r.Intn(100) < 12 { // operate again on an account that may have self-destructed / been re-funded
			v := g.victims[r.Intn(len(g.victims))]
			val := uint64(0)
			if funded && r.Intn(2) == 0 {
				val = uint64(1 + r.Intn(9))
			}
			n.Items = append(n.Items, Item{Op: "again", A: uint64(v), B: val})
			continue
		}
		if len(preTable) > 0 && r.Intn(100) < 5 { // a precompiled callee, accepted / rejected / short of gas
			e := preTable[r.Intn(len(preTable))]
			k := []string{kCALL, kCALLCODE, kDELEGATE, kSTATIC}[r.Intn(4)]
			val := uint64(0)
			if funded && (k == kCALL || k == kCALLCODE) && r.Intn(4) == 0 {
				val = uint64(1 + r.Intn(3))
			}
			pn := preNode(g.id(), k, e, r.Intn(3) == 0, val)
			n.Items = append(n.Items, Item{Op: "child", Child: pn})
			continue
		}
		if level+1 < maxLevel && r.Intn(100) < 4 { // creation failing at code storage, performed by a gas-limited frame
			tr := &Node{ID: g.id(), Kind: kCALL, End: "stop", Gas: trampolineGas}
			*ids = append(*ids, tr.ID)
			cs := &Node{ID: g.id(), Kind: []string{kCREATE, kCREATE2}[r.Intn(2)], End: "codestore", Val: uint64(r.Intn(3))}
			for j := 1 + r.Intn(3); j > 0; j-- {
				cs.Items = append(cs.Items, g.effect(*ids, false))
			}
			tr.Items = []Item{{Op: "child", Child: cs}}
			n.Items = append(n.Items, Item{Op: "child", Child: tr})
			continue
		}
		if level < maxLevel && r.Intn(100) < 38 {
			k := frameKinds[r.Intn(6)]
			if g.custom && ctxKnown && r.Intn(6) == 0 {
				k = kAUTHCALL
			}
			known := ctxKnown
			if isCreateKind(k) {
				known = false
			} else if k == kCALL || k == kSTATIC || k == kAUTHCALL {
				known = true
			}
			ch := g.node(k, level+1, maxLevel, known, ctxKnown, ids)
			ch.End = g.end(k, 50)
			if isCreateKind(k) && isFailEnd(ch.End) && r.Intn(5) == 0 {
				ch.End = "oversize"
			}
			if k == kCALL && len(ch.Items) > 0 && !isFailEnd(ch.End) && r.Intn(3) == 0 { // a victim: effects only, often self-destructing
				leaf := true
				for _, it := range ch.Items {
					if it.Op == "child" || it.Op == "again" {
						leaf = false
					}
				}
				if leaf {
					ch.Pay, ch.Val = true, 0
					if r.Intn(3) != 0 {
						ch.End = "selfdestruct"
					}
					g.victims = append(g.victims, ch.ID)
				}
			}
			if isCreateKind(k) && isFailEnd(ch.End) && ch.End != "revert" {
				if eater { // at most one gas-burning failed creation per frame
					ch.End = "revert"
				}
				eater = true
			}
			n.Items = append(n.Items, Item{Op: "child", Child: ch})
		} else {
			n.Items = append(n.Items, g.effect(*ids, ctxKnown))
		}
	}
	return n
}

func genRandomTree(rng *rand.Rand, custom bool) *Node {
	for {
		g := &gen{rng: rng, custom: custom}
		var ids []int
		kind := kCALL
		if rng.Intn(10) == 0 {
			kind = kCREATE
		}
		g.nextID = -1
		maxLevel := 1 + rng.Intn(4)
		var root *Node
		if rng.Intn(8) == 0 { // several top-level calls on one state object
			root = &Node{ID: g.id(), Kind: kSEQ, End: "stop"}
			for j := 2 + rng.Intn(3); j > 0; j-- {
				if len(g.victims) > 0 && rng.Intn(3) == 0 {
					root.Items = append(root.Items, Item{Op: "again", A: uint64(g.victims[rng.Intn(len(g.victims))]), B: uint64(rng.Intn(2) * (1 + rng.Intn(9)))})
					continue
				}
				k := kCALL
				if rng.Intn(6) == 0 {
					k = kCREATE
				}
				ch := g.node(k, 0, maxLevel, k == kCALL, true, &ids)
				ch.End = g.end(k, 15)
				if k == kCREATE {
					ch.Val = 0
					if ch.End == "selfdestruct" {
						ch.End = "return"
					}
				}
				root.Items = append(root.Items, Item{Op: "child", Child: ch})
			}
		} else {
			root = g.node(kind, 0, maxLevel, kind == kCALL, true, &ids)
			root.End = g.end(kind, 8)
			if root.End == "selfdestruct" && kind == kCREATE {
				root.End = "return"
			}
			if kind == kCREATE {
				root.Val = 0
				if isFailEnd(root.End) && rng.Intn(4) == 0 {
					root.End = "oversize"
				}
			}
		}
		_, dead := pruneTree(root)
		if len(dead) > 0 {
			return root
		}
	}
}

// action catalogue for the systematic part: one state-modifying action X.
type action struct {
	Name  string
	Items func(idBase int) []Item
}

func leafChild(kind, end string, id int, val uint64, items ...Item) Item {
	return Item{Op: "child", Child: &Node{ID: id, Kind: kind, End: end, Val: val, Items: items, Ben: 1}}
}

var actions = []action{
	{"sstore-new", func(int) []Item { return []Item{{Op: "sstore", A: 4, B: 5}} }},
	{"sstore-overwrite", func(int) []Item { return []Item{{Op: "sstore", A: 0, B: 9}} }},
	{"sstore-clear", func(int) []Item { return []Item{{Op: "sstore", A: 1, B: 0}} }},
	{"log0", func(int) []Item { return []Item{{Op: "log", A: 0, B: 1}} }},
	{"log1", func(int) []Item { return []Item{{Op: "log", A: 1, B: 2}} }},
	{"log2", func(int) []Item { return []Item{{Op: "log", A: 2, B: 3}} }},
	{"log3", func(int) []Item { return []Item{{Op: "log", A: 3, B: 4}} }},
	{"log4", func(int) []Item { return []Item{{Op: "log", A: 4, B: 5}} }},
	{"tstore", func(int) []Item { return []Item{{Op: "tstore", A: 1, B: 77}, {Op: "tprobe", A: 1, B: 5}} }},
	{"xfer-existing", func(int) []Item { return []Item{{Op: "xfer", A: 0, B: 3}} }},
	{"xfer-fresh", func(int) []Item { return []Item{{Op: "xfer", A: 4, B: 3}} }},
	{"stake", func(int) []Item { return []Item{{Op: "stake", B: 2}} }},
	{"unstake", func(int) []Item { return []Item{{Op: "unstake", B: 2}} }},
	{"unstakeall", func(int) []Item { return []Item{{Op: "unstakeall"}} }},
	{"create-ok", func(b int) []Item {
		return []Item{leafChild(kCREATE, "return", b, 2, Item{Op: "sstore", A: 2, B: 8})}
	}},
	{"create2-ok", func(b int) []Item {
		return []Item{leafChild(kCREATE2, "return", b, 0, Item{Op: "sstore", A: 2, B: 8})}
	}},
	{"create-failing", func(b int) []Item {
		return []Item{leafChild(kCREATE, "invalid", b, 1, Item{Op: "sstore", A: 2, B: 8})}
	}},
	{"create-nocode", func(b int) []Item { return []Item{leafChild(kCREATE, "stop", b, 0)} }},
	{"selfdestruct-callee", func(b int) []Item { return []Item{leafChild(kCALL, "selfdestruct", b, 4)} }},
	{"selfdestruct-self", func(b int) []Item { return []Item{leafChild(kDELEGATE, "selfdestruct", b, 0)} }},
	{"callcode-sstore", func(b int) []Item {
		return []Item{leafChild(kCALLCODE, "stop", b, 1, Item{Op: "sstore", A: 3, B: 6})}
	}},
	{"authcall-value", func(b int) []Item {
		return []Item{leafChild(kAUTHCALL, "stop", b, 5, Item{Op: "sstore", A: 2, B: 8})}
	}},
	{"authcall-novalue", func(b int) []Item {
		return []Item{leafChild(kAUTHCALL, "stop", b, 0, Item{Op: "log", A: 1, B: 9})}
	}},
}

type sysCase struct {
	Kind, Mode, Action string
	Depth              int
	Tree               *Node
}

// systematic: every frame kind x failure mode x action, the failing frame at nesting depth 1..2.
func genSystematic() []sysCase {
	var out []sysCase
	e1 := []Item{{Op: "sstore", A: 2, B: 7}, {Op: "log", A: 1, B: 100}, {Op: "tstore", A: 0, B: 11}}
	e2 := func() []Item {
		return []Item{{Op: "sstore", A: 3, B: 9}, {Op: "tprobe", A: 1, B: 6}, {Op: "sprobe", A: 4, B: 7}, {Op: "log", A: 0, B: 101}}
	}
	for _, k := range frameKinds {
		for _, m := range modesOf(k) {
			for _, act := range actions {
				for depth := 1; depth <= 2; depth++ {
					inner := &Node{ID: 10, Kind: k, Items: act.Items(20), Ben: 2}
					if k == kCALL || k == kCALLCODE || isCreateKind(k) || k == kAUTHCALL {
						inner.Val = 1
					}
					var top Item
					if m == "static" {
						inner.End = "stop"
						if isCreateKind(k) {
							inner.End = "return"
						}
						if k == kSTATIC {
							top = Item{Op: "child", Child: inner}
						} else {
							inner.Val = 0
							top = leafChild(kSTATIC, "stop", 9, 0, Item{Op: "child", Child: inner})
						}
					} else {
						inner.End = m
						top = Item{Op: "child", Child: inner}
						if m == "codestore" { // performed by a gas-limited frame so that storing the code runs out of gas
							tr := leafChild(kCALL, "stop", 7, 0, top)
							tr.Child.Gas = trampolineGas
							top = tr
						}
					}
					if depth == 2 {
						top = leafChild(kCALL, "stop", 8, 0, Item{Op: "sstore", A: 5, B: 3}, top, Item{Op: "sprobe", A: 4, B: 6})
					}
					root := &Node{ID: 0, Kind: kCALL, End: "stop"}
					root.Items = append(root.Items, e1...)
					root.Items = append(root.Items, top)
					root.Items = append(root.Items, e2()...)
					out = append(out, sysCase{Kind: k, Mode: m, Action: act.Name, Depth: depth, Tree: root})
				}
			}
		}
	}
	// precompiled callees: every address x entering opcode x {input accepted, input rejected, one gas unit short} x value
	for _, e := range preTable {
		for _, k := range []string{kCALL, kCALLCODE, kDELEGATE, kSTATIC} {
			for variant := 0; variant < 3; variant++ { // 0: as is, 1: with value, 2: gas too low
				if variant == 1 && k != kCALL && k != kCALLCODE {
					continue
				}
				for depth := 1; depth <= 2; depth++ {
					pn := preNode(10, k, e, variant == 2, uint64(variant&1))
					if variant == 2 && pn.Gas == 0 {
						continue
					}
					top := Item{Op: "child", Child: pn}
					if depth == 2 {
						top = leafChild(kCALL, "stop", 8, 0, Item{Op: "sstore", A: 5, B: 3}, top, Item{Op: "sprobe", A: 4, B: 6})
					}
					root := &Node{ID: 0, Kind: kCALL, End: "stop"}
					root.Items = append(root.Items, e1...)
					root.Items = append(root.Items, top)
					root.Items = append(root.Items, e2()...)
					reason := "accepted"
					if pn.End == "prefail" {
						reason = "badinput"
						if variant == 2 {
							reason = "lowgas"
						}
					}
					out = append(out, sysCase{Kind: k, Mode: "precompile-" + reason, Action: fmt.Sprintf("precompile%d-v%d", e.Addr, variant), Depth: depth, Tree: root})
				}
			}
		}
	}
	// top-level creation (evm.Create from the harness) failing in every way, with state-modifying init code
	for _, m := range []string{"revert", "invalid", "oog", "stack", "badjump", "oversize", "codestore"} {
		for _, act := range actions {
			root := &Node{ID: 0, Kind: kCREATE, End: m, Items: act.Items(20)}
			out = append(out, sysCase{Kind: "TOPCREATE", Mode: m, Action: act.Name, Depth: 0, Tree: root})
			seq := &Node{ID: 0, Kind: kSEQ, End: "stop", Items: []Item{
				leafChild(kCALL, "stop", 1, 0, e1...),
				{Op: "child", Child: &Node{ID: 2, Kind: kCREATE, End: m, Items: act.Items(20)}},
				leafChild(kCALL, "stop", 3, 0, e2()...),
			}}
			out = append(out, sysCase{Kind: "TOPCREATE", Mode: m, Action: act.Name, Depth: 1, Tree: seq})
		}
	}
	// an account that self-destructed earlier and was re-funded is operated on again
	// (SELFDESTRUCT / SSTORE / value CALL) inside a dead frame — within one transaction and across transactions
	for _, k := range frameKinds {
		for _, m := range tableModes {
			for _, vEnd := range []string{"selfdestruct", "stop"} {
				for variant := 0; variant < 8; variant++ {
					multi, plain, once := variant&1 != 0, variant&2 != 0, variant&4 != 0
					victim := func() Item {
						v := leafChild(kCALL, vEnd, 30, 0, Item{Op: "sstore", A: 3, B: 4})
						if !plain {
							v.Child.Items = append(v.Child.Items, Item{Op: "xfer", A: 4, B: 2})
						}
						v.Child.Pay, v.Child.Ben = true, 1
						return v
					}
					inner := &Node{ID: 10, Kind: k, Ben: 2, Items: []Item{{Op: "again", A: 30}, {Op: "again", A: 30, B: 5}, {Op: "again", A: 30}}}
					if once {
						inner.Items = inner.Items[:1]
					}
					var dead Item
					if m == "static" {
						inner.End = "stop"
						if isCreateKind(k) {
							inner.End = "return"
						}
						if k == kSTATIC {
							dead = Item{Op: "child", Child: inner}
						} else {
							dead = leafChild(kSTATIC, "stop", 9, 0, Item{Op: "child", Child: inner})
						}
					} else {
						inner.End = m
						dead = Item{Op: "child", Child: inner}
					}
					probes := []Item{{Op: "bprobe", A: 130, B: 6}, {Op: "bprobe", A: 1, B: 7}, {Op: "cprobe", A: 130, B: 5}}
					var root *Node
					if multi {
						root = &Node{ID: 0, Kind: kSEQ, End: "stop", Items: []Item{
							victim(), {Op: "again", A: 30, B: 7},
							leafChild(kCALL, "stop", 1, 0, dead),
							leafChild(kCALL, "stop", 2, 0, probes...),
						}}
					} else {
						root = &Node{ID: 0, Kind: kCALL, End: "stop"}
						root.Items = append(root.Items, victim(), Item{Op: "again", A: 30, B: 7}, dead)
						root.Items = append(root.Items, probes...)
					}
					name := "resuicide"
					if vEnd == "stop" {
						name = "revisit"
					}
					if multi {
						name += "-multitx"
					}
					name += fmt.Sprintf("-v%d", variant>>1)
					out = append(out, sysCase{Kind: k, Mode: m, Action: name, Depth: 1, Tree: root})
				}
			}
		}
	}
	return out
}

func modesOf(k string) []string {
	if isCreateKind(k) {
		return append(append([]string{}, tableModes...), "oversize", "codestore")
	}
	return tableModes
}
