package main

// A tiny EVM assembler: enough to hand-assemble the generated programs
// (minimal-width pushes, data segments addressed with patched PUSH2 offsets,
// local labels for the few loops / conditional jumps we need).

import "encoding/binary"

const (
	opSTOP         = 0x00
	opEQ           = 0x14
	opISZERO       = 0x15
	opAND          = 0x16
	opSHR          = 0x1c
	opADDRESS      = 0x30
	opBALANCE      = 0x31
	opORIGIN       = 0x32
	opCALLVALUE    = 0x34
	opCALLDATALOAD = 0x35
	opCALLDATASIZE = 0x36
	opCODECOPY     = 0x39
	opGASPRICE     = 0x3a
	opEXTCODESIZE  = 0x3b
	opEXTCODEHASH  = 0x3f
	opTIMESTAMP    = 0x42
	opDIFFICULTY   = 0x44
	opPOP          = 0x50
	opMLOAD        = 0x51
	opMSTORE       = 0x52
	opSLOAD        = 0x54
	opSSTORE       = 0x55
	opJUMP         = 0x56
	opJUMPI        = 0x57
	opPC           = 0x58
	opJUMPDEST     = 0x5b
	opTLOAD        = 0x5c
	opTSTORE       = 0x5d
	opPUSH1        = 0x60
	opLOG0         = 0xa0
	opCREATE       = 0xf0
	opCALL         = 0xf1
	opCALLCODE     = 0xf2
	opRETURN       = 0xf3
	opDELEGATECALL = 0xf4
	opCREATE2      = 0xf5
	opAUTH         = 0xf6
	opAUTHCALL     = 0xf7
	opSTATICCALL   = 0xfa
	opREVERT       = 0xfd
	opINVALID      = 0xfe
	opSELFDESTRUCT = 0xff
	opUNSTAKEALL   = 0xeb
	opSTAKE        = 0xee
	opUNSTAKE      = 0xef
)

type asmPatch struct {
	at   int // offset of the 2 immediate bytes
	data int // index into datas (-1: label)
	lbl  int
}

type Asm struct {
	code    []byte
	datas   [][]byte
	patches []asmPatch
	labels  []int
}

func (a *Asm) Op(b ...byte) *Asm { a.code = append(a.code, b...); return a }

// Push emits the shortest PUSHn for v (PUSH1 0 for zero).
func (a *Asm) Push(v uint64) *Asm {
	var buf [8]byte
	binary.BigEndian.PutUint64(buf[:], v)
	i := 0
	for i < 7 && buf[i] == 0 {
		i++
	}
	return a.PushBytes(buf[i:])
}

// PushBytes emits PUSHn with exactly these immediate bytes (1..32).
func (a *Asm) PushBytes(b []byte) *Asm {
	if len(b) == 0 || len(b) > 32 {
		panic("asm: bad push width")
	}
	a.code = append(a.code, byte(opPUSH1+len(b)-1))
	a.code = append(a.code, b...)
	return a
}

// Data registers a data segment appended after the code; PushDataOff pushes its offset.
func (a *Asm) Data(d []byte) int { a.datas = append(a.datas, d); return len(a.datas) - 1 }

func (a *Asm) PushDataOff(idx int) *Asm {
	a.code = append(a.code, opPUSH1+1, 0, 0)
	a.patches = append(a.patches, asmPatch{at: len(a.code) - 2, data: idx})
	return a
}

func (a *Asm) NewLabel() int { a.labels = append(a.labels, -1); return len(a.labels) - 1 }

// Mark places a JUMPDEST for the label here.
func (a *Asm) Mark(l int) *Asm {
	a.labels[l] = len(a.code)
	a.code = append(a.code, opJUMPDEST)
	return a
}

func (a *Asm) PushLabel(l int) *Asm {
	a.code = append(a.code, opPUSH1+1, 0, 0)
	a.patches = append(a.patches, asmPatch{at: len(a.code) - 2, data: -1, lbl: l})
	return a
}

// Bytes finalises: code || data segments, with offsets patched in.
func (a *Asm) Bytes() []byte {
	out := append([]byte{}, a.code...)
	offs := make([]int, len(a.datas))
	for i, d := range a.datas {
		offs[i] = len(out)
		out = append(out, d...)
	}
	for _, p := range a.patches {
		v := 0
		if p.data >= 0 {
			v = offs[p.data]
		} else {
			v = a.labels[p.lbl]
			if v < 0 {
				panic("asm: unplaced label")
			}
		}
		if v > 0xffff {
			panic("asm: program too large")
		}
		out[p.at] = byte(v >> 8)
		out[p.at+1] = byte(v)
	}
	return out
}
