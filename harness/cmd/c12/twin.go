package main

// Oracle (a): differential twins at the harness boundary. Program A (the
// generated tree) and program B (every outermost dead frame — failing, or
// static — stripped of its body) are run by the real interpreter on identical
// in-memory states; root, logs, returned logs, existing accounts and accessor
// answers must agree. A control (dead frame revived) proves the stripped body
// has an effect when it is not dead.

import (
	"fmt"
	"math"
	"math/big"
	"os"
	"sort"
	"strings"

	"com.tuntun.rangers/node/src/common"
	"com.tuntun.rangers/node/src/middleware/db"
	"com.tuntun.rangers/node/src/middleware/types"
	"com.tuntun.rangers/node/src/service"
	"com.tuntun.rangers/node/src/storage/account"
	"com.tuntun.rangers/node/src/storage/trie"
	"com.tuntun.rangers/node/src/utility"
	"com.tuntun.rangers/node/src/vm"

	"verifharness/env"
	"verifharness/mon"
)

const blockHeight = 10

var debugOn = os.Getenv("C12_DEBUG") != ""

var (
	chainID  *big.Int
	txHashA  = common.BytesToHash([]byte("c12-twin-transaction-hash-000001"))
	curTrace *[]string
	e18      = big.NewInt(1e18)
)

func errClass(err error) string {
	switch err {
	case vm.ErrExecutionReverted:
		return "revert"
	case vm.ErrOutOfGas:
		return "oog"
	case vm.ErrInvalidJump:
		return "badjump"
	case vm.ErrWriteProtection:
		return "static"
	case vm.ErrCodeStoreOutOfGas:
		return "oog-codestore"
	}
	switch err.(type) {
	case *vm.ErrInvalidOpCode:
		return "invalid"
	case *vm.ErrStackUnderflow, *vm.ErrStackOverflow:
		return "stack"
	}
	return "other:" + err.Error()
}

func installTraceHook() {
	vm.VerifFrameHook = func(enter bool, depth int, gas uint64, memLen int, err error) {
		if !enter && err != nil && curTrace != nil {
			*curTrace = append(*curTrace, fmt.Sprintf("%d:%s", depth, errClass(err)))
		}
	}
}

func vmContext(skip, rev, nocall *big.Int) vm.Context {
	if skip == nil {
		skip = new(big.Int)
	}
	if nocall == nil {
		nocall = new(big.Int)
	}
	if rev == nil {
		rev = new(big.Int)
	}
	return vm.Context{
		CanTransfer: vm.CanTransfer, Transfer: vm.Transfer,
		GetHash:     func(uint64) common.Hash { return common.Hash{} },
		Origin:      originAddr,
		GasPrice:    rev, // variant selector (see tree.go: envBit)
		Coinbase:    common.BytesToAddress([]byte{0xcb}),
		GasLimit:    rootGas,
		BlockNumber: new(big.Int).SetUint64(blockHeight),
		Time:        nocall, // variant selector: call sites that are not executed at all
		Difficulty:  skip,   // variant selector
	}
}

func minerIDFor(a common.Address) []byte {
	id := make([]byte, 32)
	copy(id, []byte("c12-miner"))
	copy(id[12:], a.Bytes())
	return id
}

// systemAddrs: accounts the node's own opcodes write to.
func systemAddrs() []common.Address {
	out := []common.Address{{}, common.ValidatorDBAddress, common.ProposerDBAddress, common.FeeAccount}
	return out
}

type runOut struct {
	Err      string
	Root     common.Hash
	Logs     []string
	RetLogs  []string
	Sweep1   []string
	Accounts []string
	Trace    []string
	adb      *account.AccountDB
	db       account.AccountDatabase
}

func fmtLog(l *types.Log) string {
	ts := make([]string, len(l.Topics))
	for i, t := range l.Topics {
		ts[i] = strings.TrimLeft(fmt.Sprintf("%x", t[:]), "0")
	}
	return fmt.Sprintf("addr=%x topics=%v data=%x tx=%x idx=%d", l.Address[:], ts, l.Data, l.TxHash[:4], l.Index)
}

func fmtRetLog(l *types.Log) string {
	ts := make([]string, len(l.Topics))
	for i, t := range l.Topics {
		ts[i] = strings.TrimLeft(fmt.Sprintf("%x", t[:]), "0")
	}
	return fmt.Sprintf("addr=%x topics=%v data=%x", l.Address[:], ts, l.Data)
}

func h32(v uint64) common.Hash { return common.BigToHash(new(big.Int).SetUint64(v)) }

const (
	nSlots  = 8
	nTSlots = 4
)

// sweep reads every accessor over the given addresses.
func sweep(adb *account.AccountDB, addrs []common.Address, pre bool) []string {
	var out []string
	for _, a := range addrs {
		p := fmt.Sprintf("%x", a[:])
		out = append(out, fmt.Sprintf("%s exist=%v", p, adb.Exist(a)))
		out = append(out, fmt.Sprintf("%s nonce=%d", p, adb.GetNonce(a)))
		out = append(out, fmt.Sprintf("%s balance=%s", p, adb.GetBalance(a)))
		out = append(out, fmt.Sprintf("%s codehash=%x", p, adb.GetCodeHash(a)))
		out = append(out, fmt.Sprintf("%s codesize=%d", p, adb.GetCodeSize(a)))
		for s := 0; s < nSlots; s++ {
			out = append(out, fmt.Sprintf("%s storage[%d]=%x", p, s, adb.GetState(a, h32(uint64(s)))))
		}
		if pre {
			out = append(out, fmt.Sprintf("%s empty=%v", p, adb.Empty(a)))
			out = append(out, fmt.Sprintf("%s suicided=%v", p, adb.HasSuicided(a)))
			for s := 0; s < nTSlots; s++ {
				out = append(out, fmt.Sprintf("%s transient[%d]=%x", p, s, adb.GetTransientState(a, h32(uint64(s)))))
			}
		}
	}
	return out
}

func firstDiff(a, b []string) (string, string) {
	for i := 0; i < len(a) || i < len(b); i++ {
		var x, y string
		if i < len(a) {
			x = a[i]
		}
		if i < len(b) {
			y = b[i]
		}
		if x != y {
			return x, y
		}
	}
	return "", ""
}

func sameStrings(a, b []string) bool {
	if len(a) != len(b) {
		return false
	}
	for i := range a {
		if a[i] != b[i] {
			return false
		}
	}
	return true
}

// precompile inputs, classified once by asking the real code (workload selection, not an oracle)
type preEntry struct {
	Addr   int
	In     string // hex
	Fails  bool   // Run rejects the input
	MinGas uint64 // RequiredGas(input)
}

var preTable []preEntry

// preAddr: 0x00..0N (common.BytesToAddress left-aligns short inputs, so build all 20 bytes)
func preAddr(i int) common.Address {
	var a common.Address
	a[19] = byte(i)
	return a
}

func buildPreTable() {
	zeros := func(n int) []byte { return make([]byte, n) }
	blake := zeros(213)
	blake[3], blake[212] = 1, 1
	badPoint := zeros(128)
	badPoint[31], badPoint[63] = 1, 1
	cands := map[int][][]byte{
		1: {zeros(128)}, 2: {zeros(32), {}}, 3: {zeros(32)}, 4: {zeros(32), {}},
		5:  {zeros(96), append(append(zeros(31), 1, 0, 0, 0, 0, 0, 0, 0, 0, 0, 0, 0, 0, 0, 0, 0, 0, 0, 0, 0, 0, 0, 0, 0, 0, 0, 0, 0, 0, 0, 0, 0, 1), append(zeros(31), 1, 2, 3, 5)...)},
		6:  {zeros(128), {}, badPoint},
		7:  {zeros(96), badPoint[:96]},
		8:  {{}, zeros(192), zeros(191), badPoint[:64]},
		9:  {blake, zeros(213), zeros(212), {}},
		10: {zeros(256), zeros(255), badPoint}, 11: {zeros(160), zeros(159)}, 12: {zeros(160), zeros(161), {}},
		13: {zeros(512), zeros(511)}, 14: {zeros(288), zeros(287)}, 15: {zeros(288), zeros(289), {}},
		16: {zeros(384), zeros(383), {}}, 17: {zeros(64), zeros(63)}, 18: {zeros(128), zeros(127)},
	}
	for addr := 1; addr <= 18; addr++ {
		p, ok := vm.PrecompiledContracts[preAddr(addr)]
		if !ok {
			continue
		}
		for _, in := range cands[addr] {
			e := preEntry{Addr: addr, In: fmt.Sprintf("%x", in)}
			func() {
				defer func() {
					if recover() != nil {
						e.Addr = 0 // a panicking input is C11's business, not used here
					}
				}()
				e.MinGas = p.RequiredGas(in)
				_, _, err := vm.RunPrecompiledContract(p, in, 1<<40)
				e.Fails = err != nil
			}()
			if e.Addr != 0 {
				preTable = append(preTable, e)
			}
		}
	}
}

// preNode: a frame whose callee is a precompiled contract. lowGas: hand it one gas unit too little.
func preNode(id int, kind string, e preEntry, lowGas bool, val uint64) *Node {
	n := &Node{ID: id, Kind: kind, Pre: e.Addr, In: e.In, End: "stop", Val: val}
	if e.Fails {
		n.End = "prefail"
	}
	if lowGas && e.MinGas > 1 && val == 0 {
		n.Gas, n.End = e.MinGas-1, "prefail"
	}
	return n
}

// staticUniverse: every address the tree can name without executing it.
func staticUniverse(trees ...*Node) []common.Address {
	set := map[common.Address]bool{originAddr: true}
	for i := 0; i < nEOA; i++ {
		set[eoaAddr(i)] = true
	}
	for _, a := range systemAddrs() {
		set[a] = true
	}
	for i := 1; i <= 18; i++ {
		set[preAddr(i)] = true
	}
	for _, t := range trees {
		t.walk(func(n, _ *Node, _ int, _ bool) {
			if !isCreateKind(n.Kind) {
				set[nodeAddr(n.ID)] = true
			}
			if n.Kind == kAUTHCALL {
				set[authorityFor(n.ID).addr] = true
			}
		}, nil, 0, false)
	}
	return sortAddrs(set)
}

func sortAddrs(set map[common.Address]bool) []common.Address {
	out := make([]common.Address, 0, len(set))
	for a := range set {
		out = append(out, a)
	}
	sort.Slice(out, func(i, j int) bool { return string(out[i][:]) < string(out[j][:]) })
	return out
}

// runTree executes one variant of the program on a fresh state. The deployed
// code and the pre-state are identical for every variant; skip / rev (read by
// the program from DIFFICULTY / GASPRICE) select twin B and the controls.
func runTree(t *Node, skip, rev, nocall *big.Int, universe []common.Address) *runOut {
	mem, _ := db.NewMemDatabase()
	adbase := account.NewDatabase(mem)
	adb, err := account.NewAccountDB(common.Hash{}, adbase)
	if err != nil {
		panic(err)
	}
	comp := compileTree(t, chainID)

	rich := new(big.Int).Lsh(big.NewInt(1), 100)
	adb.SetBalance(originAddr, rich)
	for i := 0; i < 3; i++ {
		adb.SetBalance(eoaAddr(i), big.NewInt(1000000))
	}
	cbal := new(big.Int).Mul(big.NewInt(100), e18)
	for _, a := range sortAddrs(keys(comp.deploy)) {
		adb.SetCode(a, comp.deploy[a])
		adb.SetBalance(a, cbal)
		adb.SetState(a, h32(0), h32(0x11))
		adb.SetState(a, h32(1), h32(0x22))
	}
	for _, a := range sortAddrs(comp.miners) {
		m := &types.Miner{Id: minerIDFor(a), PublicKey: []byte{1}, VrfPublicKey: []byte{2}, ApplyHeight: 1,
			Status: common.MinerStatusNormal, Type: common.MinerTypeValidator, Stake: 1000, Account: a.Bytes()}
		service.MinerManagerImpl.UpdateMiner(m, adb, true)
	}
	adb.IntermediateRoot(false)

	out := &runOut{adb: adb, db: adbase}
	topLevel := func(n *Node, again *Item, txi int) {
		h := txHashA
		h[31] = byte(txi)
		adb.Prepare(h, common.Hash{}, txi)
		evm := vm.NewEVMWithNFT(vmContext(skip, rev, nocall), adb, adb)
		var retLogs []*types.Log
		var cerr error
		switch {
		case again != nil:
			_, _, retLogs, cerr = evm.Call(vm.AccountRef(originAddr), nodeAddr(int(again.A)), nil, rootGas, new(big.Int).SetUint64(again.B))
		case nocall != nil && nocall.Bit(n.ID) == 1:
			// the top-level call is not made at all: plain before/after comparison
		case isCreateKind(n.Kind):
			init := comp.rootInit
			if init == nil {
				init = comp.inits[n.ID]
			}
			g := rootGas
			if n.End == "codestore" {
				g = trampolineGas
			}
			_, _, _, retLogs, cerr = evm.Create(vm.AccountRef(originAddr), init, g, new(big.Int).SetUint64(n.Val))
		default:
			_, _, retLogs, cerr = evm.Call(vm.AccountRef(originAddr), nodeAddr(n.ID), nil, rootGas, new(big.Int).SetUint64(n.Val))
		}
		if cerr != nil {
			out.Err += fmt.Sprintf("tx%d:failed;", txi) // success / failure only: the error text of a failing frame may differ
		}
		for _, l := range retLogs {
			out.RetLogs = append(out.RetLogs, fmtRetLog(l))
		}
		for _, l := range adb.GetLogs(h) {
			out.Logs = append(out.Logs, fmtLog(l))
		}
	}
	curTrace = &out.Trace
	if t.Kind == kSEQ {
		for i := range t.Items {
			if t.Items[i].Child != nil {
				topLevel(t.Items[i].Child, nil, i)
			} else if t.Items[i].Op == "again" {
				topLevel(nil, &t.Items[i], i)
			}
		}
	} else {
		topLevel(t, nil, 0)
	}
	curTrace = nil
	out.Sweep1 = sweep(adb, universe, true)
	out.Root = adb.IntermediateRoot(true)
	root2, err := adb.Commit(true)
	if err == nil {
		if tr, e := adbase.OpenTrie(root2); e == nil {
			it := trie.NewIterator(tr.NodeIterator(nil))
			for it.Next() {
				out.Accounts = append(out.Accounts, fmt.Sprintf("%x", it.Key))
			}
		}
	}
	if err != nil || root2 != out.Root {
		out.Accounts = append(out.Accounts, fmt.Sprintf("commit-root=%x err=%v", root2[:], err))
	}
	return out
}

func keys(m map[common.Address][]byte) map[common.Address]bool {
	o := map[common.Address]bool{}
	for a := range m {
		o[a] = true
	}
	return o
}

// verdict of one A/B comparison
type diff struct {
	Class string // "" = equal
	A, B  string
}

type pairResult struct {
	D        diff // A vs B
	D0       diff // B vs B0 (dead frames not entered at all)
	A, B, B0 *runOut
	Dead     []deadInfo
	Universe []common.Address
	Entry    int // dead frames whose entry was compared
}

// verdict: which comparison failed ("twin": A vs B, "entry": B vs B0).
func (pr *pairResult) verdict() (string, diff) {
	if pr.D.Class != "" {
		return "twin", pr.D
	}
	if pr.D0.Class != "" {
		return "entry", pr.D0
	}
	return "", diff{}
}

func refundAddrs() []common.Address {
	// the addresses UNSTAKE files its refunds under (RefundManager.generateAddress)
	var out []common.Address
	for _, h := range []uint64{blockHeight + 36000, blockHeight + common.GetRefundBlocks()*100} {
		out = append(out, common.BytesToAddress(common.Sha256(utility.StrToBytes("refund"+fmt.Sprint(h)))))
	}
	return out
}

// entryAll: also compare the entry of CREATE-like and AUTHCALL frames (their
// creator's / authority's nonce bump is exempted); only sound when nothing
// after the dead frame depends on those nonces (the systematic programs).
var entryAll = false

func comparePair(a *Node) *pairResult {
	_, dead := pruneTree(a)
	uni := staticUniverse(a)
	uni = append(uni, refundAddrs()...)
	var outer, noEntry []int
	var ex *exempt
	for _, d := range dead {
		outer = append(outer, d.ID)
		switch d.Kind {
		case kCALL, kCALLCODE, kDELEGATE, kSTATIC:
			noEntry = append(noEntry, d.ID)
		default:
			if entryAll {
				noEntry = append(noEntry, d.ID)
				if ex == nil {
					// the origin's account object only exists because a top-level creation bumps its nonce
					ex = &exempt{nonceOf: map[string]bool{}, accounts: map[string]bool{fmt.Sprintf("%x", originAddr[:]): true}}
					a.walk(func(n, _ *Node, _ int, _ bool) {
						if !isCreateKind(n.Kind) {
							ad := nodeAddr(n.ID)
							ex.nonceOf[fmt.Sprintf("%x", ad[:])] = true
						}
						if n.Kind == kAUTHCALL {
							au := authorityFor(n.ID).addr
							ex.accounts[fmt.Sprintf("%x", au[:])] = true
						}
					}, nil, 0, false)
				}
			}
		}
	}
	ra := runTree(a, nil, nil, nil, uni)
	rb := runTree(a, idMask(outer...), nil, nil, uni)
	pr := &pairResult{A: ra, B: rb, Dead: dead, Universe: uni}
	// A successful value-0 CALL to a precompile address that is no account yet "touches" it: an empty
	// account object exists until the state is finalised (go-ethereum does the same). Inside a static
	// frame that is not a modification the property is about: existence of exactly those addresses is exempt.
	var exA *exempt
	a.walk(func(n, _ *Node, _ int, _ bool) {
		if n.Pre != 0 && n.Kind == kCALL && n.End == "stop" {
			if exA == nil {
				exA = &exempt{touchOf: map[string]bool{}}
			}
			pa := preAddr(n.Pre)
			exA.touchOf[fmt.Sprintf("%x", pa[:])] = true
		}
	}, nil, 0, false)
	pr.D = diffRunsEx(ra, rb, uni, exA, true)
	if len(noEntry) > 0 {
		pr.B0 = runTree(a, idMask(outer...), nil, idMask(noEntry...), uni)
		pr.D0 = diffRunsEx(rb, pr.B0, uni, ex, false)
		pr.Entry = len(noEntry)
	}
	return pr
}

// exemptions for the frame-entry comparison of CREATE-like / AUTHCALL frames:
// the creator's (authority's) nonce legitimately stays bumped when the frame fails.
type exempt struct {
	nonceOf  map[string]bool // hex addresses whose nonce lines are ignored
	touchOf  map[string]bool // hex addresses whose bare existence (exist / empty / hash of no code) is ignored
	accounts map[string]bool // hex addresses ignored in the set of existing accounts
}

func (e *exempt) filterLines(l []string) []string {
	if e == nil {
		return l
	}
	var out []string
	for _, x := range l {
		sp := strings.IndexByte(x, ' ')
		if sp > 0 && e.touchOf[x[:sp]] && (strings.HasPrefix(x[sp+1:], "codehash=") || strings.HasPrefix(x[sp+1:], "empty=") || strings.HasPrefix(x[sp+1:], "exist=")) {
			continue
		}
		if sp > 0 && (e.accounts[x[:sp]] || (e.nonceOf[x[:sp]] && (strings.HasPrefix(x[sp+1:], "nonce=") || strings.HasPrefix(x[sp+1:], "empty=") || strings.HasPrefix(x[sp+1:], "exist=")))) {
			continue
		}
		out = append(out, x)
	}
	return out
}

func (e *exempt) filterAccounts(l []string) []string {
	if e == nil {
		return l
	}
	var out []string
	for _, x := range l {
		if !e.accounts[x] {
			out = append(out, x)
		}
	}
	return out
}

func diffRuns(ra, rb *runOut, uni []common.Address) diff { return diffRunsEx(ra, rb, uni, nil, true) }

func diffRunsEx(ra, rb *runOut, uni []common.Address, ex *exempt, cmpErr bool) diff {
	if ra.Err != rb.Err && cmpErr {
		return diff{"top-level-result", ra.Err, rb.Err}
	}
	if !sameStrings(ra.Logs, rb.Logs) {
		x, y := firstDiff(ra.Logs, rb.Logs)
		return diff{"logs", x, y}
	}
	accA, accB := ex.filterAccounts(ra.Accounts), ex.filterAccounts(rb.Accounts)
	if ra.Root != rb.Root || !sameStrings(accA, accB) {
		// refine with the post-commit accessor answers over static + enumerated accounts
		set := map[common.Address]bool{}
		for _, a := range uni {
			set[a] = true
		}
		for _, l := range [][]string{ra.Accounts, rb.Accounts} {
			for _, s := range l {
				if len(s) == 40 {
					set[common.HexToAddress("0x"+s)] = true
				}
			}
		}
		if !sameStrings(accA, accB) {
			x, y := firstDiffSet(accA, accB)
			return diff{"accounts", x, y}
		}
		all := sortAddrs(set)
		x, y := firstDiff(ex.filterLines(sweep(ra.adb, all, false)), ex.filterLines(sweep(rb.adb, all, false)))
		cls := "state-root"
		for _, f := range []string{"nonce", "balance", "codehash", "codesize", "storage", "exist"} {
			if strings.Contains(x, " "+f) {
				cls = f
				break
			}
		}
		if x == "" && y == "" {
			if ex != nil {
				goto pre // only exempted lines differ
			}
			x, y = fmt.Sprintf("root=%x", ra.Root[:]), fmt.Sprintf("root=%x", rb.Root[:])
		}
		return diff{cls, x, y}
	}
pre:
	if s1a, s1b := ex.filterLines(ra.Sweep1), ex.filterLines(rb.Sweep1); !sameStrings(s1a, s1b) {
		x, y := firstDiff(s1a, s1b)
		cls := "accessor"
		for _, f := range []string{"transient", "suicided", "empty", "nonce", "balance", "codehash", "codesize", "storage", "exist"} {
			if strings.Contains(x, " "+f) {
				cls = "accessor-" + f
				break
			}
		}
		return diff{cls, x, y}
	}
	if !sameStrings(ra.RetLogs, rb.RetLogs) {
		x, y := firstDiff(ra.RetLogs, rb.RetLogs)
		return diff{"returned-logs", x, y}
	}
	return diff{}
}

func firstDiffSet(a, b []string) (string, string) {
	ma, mb := map[string]bool{}, map[string]bool{}
	for _, s := range a {
		ma[s] = true
	}
	for _, s := range b {
		mb[s] = true
	}
	for _, s := range a {
		if !mb[s] {
			return "account " + s + " exists", "absent"
		}
	}
	for _, s := range b {
		if !ma[s] {
			return "absent", "account " + s + " exists"
		}
	}
	return "", ""
}

// effective: does the control (dead frame id revived, the other dead frames
// still stripped) differ from twin B?
func controlEffective(t *Node, pr *pairResult, id int) bool {
	var others []int
	for _, d := range pr.Dead {
		if d.ID != id {
			others = append(others, d.ID)
		}
	}
	rc := runTree(t, idMask(others...), idMask(subtreeIDs(t.find(id))...), nil, pr.Universe)
	rb := pr.B
	return rc.Root != rb.Root || !sameStrings(rc.Logs, rb.Logs) || !sameStrings(rc.Accounts, rb.Accounts)
}

// shrink removes items while the same class of difference persists.
func shrink(t *Node, which, class string, budget int) *Node {
	cur := t.clone()
	same := func() bool {
		if _, dead := pruneTree(cur); len(dead) == 0 {
			return false
		}
		w, d := comparePair(cur).verdict()
		return w == which && classGroup(d.Class) == classGroup(class)
	}
	for pass := 0; pass < 4; pass++ {
		changed := false
		var nodes []*Node
		cur.walk(func(n, _ *Node, _ int, _ bool) { nodes = append(nodes, n) }, nil, 0, false)
		for _, n := range nodes {
			for i := len(n.Items) - 1; i >= 0; i-- {
				if budget <= 0 {
					return cur
				}
				if cur.find(n.ID) != n { // node was removed with an ancestor
					break
				}
				saved := n.Items
				n.Items = append(append([]Item{}, saved[:i]...), saved[i+1:]...)
				budget--
				if same() {
					changed = true
				} else {
					n.Items = saved
				}
			}
		}
		// hoist: splice a live child's items into its parent (drops one frame)
		for _, n := range nodes {
			for i := len(n.Items) - 1; i >= 0; i-- {
				if budget <= 0 {
					return cur
				}
				if cur.find(n.ID) != n {
					break
				}
				ch := n.Items[i].Child
				if ch == nil || isDead(ch) || isDead(n) || n.Kind == kSEQ || ch.Pay || ch.Gas != 0 {
					continue
				}
				saved := n.Items
				ni := append([]Item{}, saved[:i]...)
				ni = append(ni, ch.Items...)
				ni = append(ni, saved[i+1:]...)
				n.Items = ni
				budget--
				if same() {
					changed = true
				} else {
					n.Items = saved
				}
			}
		}
		// drop values
		for _, n := range nodes {
			if budget <= 0 {
				return cur
			}
			if cur.find(n.ID) != n || n.Val == 0 {
				continue
			}
			v := n.Val
			n.Val = 0
			budget--
			if same() {
				changed = true
			} else {
				n.Val = v
			}
		}
		if !changed {
			break
		}
	}
	return cur
}

type twinStats struct {
	seenSigs map[string][]string // signature -> culprit leaf ops of its minimal tree
	shrinks  int
}

type twinWitness struct {
	Oracle   string `json:"oracle"`
	EntryAll bool   `json:"entry_all,omitempty"`
	Tree     *Node  `json:"tree"`
	Minimal  *Node  `json:"minimal,omitempty"`
	Class    string `json:"class"`
	InA      string `json:"in_A"`
	InB      string `json:"in_B"`
	Shape    string `json:"shape"`
}

// judgeTree runs one twin case completely. Returns whether the pair was non-trivial.
func judgeTree(r *mon.Run, st *twinStats, t *Node, label string) (nontrivial bool) {
	r.Count("twin_pairs", 1)
	var pr *pairResult
	if r.Guard("C12:twin", map[string]interface{}{"oracle": "twin", "entry_all": entryAll, "tree": t}, func() { pr = comparePair(t) }) {
		return false
	}
	expected, cells := planTrace(t, false)
	if e2, c2 := planTrace(t, true); !sameStrings(expected, pr.A.Trace) && sameStrings(e2, pr.A.Trace) {
		expected, cells = e2, c2
	}
	// a frame that was not planned to run out of gas did: gas skew, the pair is not judged
	unexpectedOOG := func(exp, tr []string) bool {
		e, got := 0, 0
		for _, x := range exp {
			if strings.HasSuffix(x, ":oog") || strings.HasSuffix(x, ":static") {
				e++ // a frame planned to die on a refused write may, on a broken tree, reach its own end instead
			}
		}
		for _, x := range tr {
			if strings.HasSuffix(x, ":oog") || strings.HasSuffix(x, ":oog-codestore") {
				got++
			}
		}
		return got > e
	}
	bTree, _ := pruneTree(t)
	expectedB, _ := planTrace(bTree, false)
	if unexpectedOOG(expected, pr.A.Trace) || unexpectedOOG(expectedB, pr.B.Trace) {
		r.Count("twin_discarded_gas_skew", 1)
		if debugOn {
			fmt.Printf("GASSKEW %s\n  expected %v\n  A %v\n  B %v\n", t.shape(true), expected, pr.A.Trace, pr.B.Trace)
		}
		// (a returned-logs difference does not depend on gas: it is the listed finding about REVERTed frames)
		if w, d := pr.verdict(); w != "" && d.Class != "returned-logs" {
			r.Inconclusive("twin pair differs (%s %s) but a frame ran out of gas that was not planned to: %s", w, d.Class, t.shape(true))
		}
		return false
	}
	traceOK := sameStrings(expected, pr.A.Trace)
	if !traceOK {
		r.Count("twin_plan_mismatch", 1)
		if debugOn {
			fmt.Printf("MISMATCH %s\n  expected %v\n  A %v\n", t.shape(true), expected, pr.A.Trace)
		}
	}
	r.Count("twin_frames_failed_observed", int64(len(pr.A.Trace)))

	if pr.Entry > 0 {
		r.Count("twin_entry_comparisons", int64(pr.Entry))
	}
	if w, _ := pr.verdict(); w != "" {
		reportTwin(r, st, t, pr)
	}

	// controls: which outermost dead frames have a body with an effect
	eff := map[int]bool{}
	for _, d := range pr.Dead {
		ok := false
		if r.Guard("C12:twin-control", map[string]interface{}{"oracle": "twin", "entry_all": entryAll, "tree": t}, func() { ok = controlEffective(t, pr, d.ID) }) {
			continue
		}
		r.Count("twin_controls", 1)
		if ok {
			eff[d.ID] = true
			nontrivial = true
			r.Count("twin_controls_effective", 1)
		}
	}
	if nontrivial {
		r.Count("twin_pairs_nontrivial", 1)
		if t.Kind == kSEQ {
			r.Count("twin_multitx_pairs_nontrivial", 1)
		}
		again := false
		t.walk(func(n, _ *Node, _ int, _ bool) {
			for _, it := range n.Items {
				if it.Op == "again" {
					again = true
				}
			}
		}, nil, 0, false)
		if again {
			r.Count("twin_revisit_pairs_nontrivial", 1)
		}
		r.Distinct("twin_nontrivial", treeJSON(t))
		if traceOK {
			for _, c := range cells {
				if eff[c.OuterID] {
					r.Count("cell_"+c.Kind+"_"+c.Mode, 1)
				}
			}
			for _, d := range pr.Dead {
				if d.Static && eff[d.ID] {
					r.Count("static_subtrees_nontrivial", 1)
				}
			}
		}
		t.walk(func(n, _ *Node, depth int, _ bool) { r.Max("max_nesting_depth", int64(depth)) }, nil, 0, false)
	} else {
		r.Count("twin_pairs_trivial", 1)
	}
	return
}

func reportTwin(r *mon.Run, st *twinStats, t *Node, pr *pairResult) {
	r.Count("twin_differences", 1)
	which, d := pr.verdict()
	wit := func(cur *Node, w string, dd diff) twinWitness {
		return twinWitness{Oracle: "twin", EntryAll: entryAll, Tree: t, Class: w + ":" + dd.Class, InA: dd.A, InB: dd.B, Shape: cur.shape(true)}
	}
	// A case may combine several causes. Peel off the causes already minimised
	// earlier: removing the culprit ops of a known signature changes (or heals)
	// the difference => the case is one more witness of that signature.
	var sigs []string
	for sig := range st.seenSigs {
		sigs = append(sigs, sig)
	}
	sort.Strings(sigs)
	cur := t
	for pass := 0; pass < 2; pass++ {
		for _, sig := range sigs {
			h := removeLeafOps(cur, st.seenSigs[sig])
			if h.countItems() == cur.countItems() {
				continue
			}
			hw, hd := "", diff{}
			if _, dead := pruneTree(h); len(dead) > 0 {
				hw, hd = comparePair(h).verdict()
			}
			if hw == which && hd.Class == d.Class && hd.A == d.A && hd.B == d.B {
				continue // no influence on the difference
			}
			r.Violation(sig, "same minimal cause as an earlier witness", wit(t, which, d))
			cur, which, d = h, hw, hd
			if which == "" {
				return
			}
		}
	}
	min := cur
	if st.shrinks >= 3000 { // safety valve; keeps the signature stable
		r.Violation(fmt.Sprintf("C12:%s:%s:not-minimised", which, classGroup(d.Class)), "difference between twins (not minimised: budget exhausted)", wit(cur, which, d))
		return
	}
	st.shrinks++
	r.Count("twin_shrinks", 1)
	min = shrink(cur, which, d.Class, 600)
	mp := comparePair(min)
	mw, md := mp.verdict()
	if mw == "" { // cannot happen (shrink keeps the class); fall back
		min, mp = cur, comparePair(cur)
		mw, md = mp.verdict()
	}
	sig := twinSignature(min, mp)
	st.seenSigs[sig] = unionStrings(st.seenSigs[sig], leafOps(min))
	var what string
	if mw == "twin" {
		what = fmt.Sprintf("program A and its twin B (dead frame bodies skipped) end differently [%s]: A: %s | B: %s | minimal program %s",
			md.Class, md.A, md.B, min.shape(true))
	} else {
		what = fmt.Sprintf("twin B (dead frame entered, fails at once) and twin B0 (dead frame not entered at all) end differently [%s]: B: %s | B0: %s | minimal program %s",
			md.Class, md.A, md.B, min.shape(true))
	}
	w := wit(min, mw, md)
	w.Minimal = min
	r.Violation(sig, what, w)
}

func unionStrings(a, b []string) []string {
	m := map[string]bool{}
	for _, x := range a {
		m[x] = true
	}
	for _, x := range b {
		m[x] = true
	}
	var out []string
	for x := range m {
		out = append(out, x)
	}
	sort.Strings(out)
	return out
}

// twinSignature: C12:<twin|static>:<class group>:<dead frame kind/mode>:<culprit ops> of the minimal program.
func twinSignature(min *Node, mp *pairResult) string {
	if ops := leafOps(min); len(ops) == 1 && ops[0] == "end:codestore" {
		// a creation that runs out of gas while storing its code is reported failed but not
		// rolled back (tracked as C11:create:codestore-oog-not-reverted); one signature for all its shapes
		return "C12:create:codestore-oog"
	}
	which, vd := mp.verdict()
	prefix := "twin"
	allStatic := len(mp.Dead) > 0
	for _, d := range mp.Dead {
		if !d.Static {
			allStatic = false
		}
	}
	if allStatic {
		prefix = "static"
	}
	group := classGroup(vd.Class)
	// culprit ops: effects left in the minimal program's dead frames (frame kinds when no effect is left)
	set := map[string]bool{}
	var frames []string
	var rec func(n *Node, inDead bool)
	rec = func(n *Node, inDead bool) {
		dead := inDead || isDead(n)
		if !inDead && isDead(n) {
			m := "static"
			if isFailEnd(n.End) {
				m = modeOfEnd(n.End)
			}
			if prefix == "static" || group == "returned-logs" {
				frames = append(frames, m)
			} else {
				frames = append(frames, n.Kind+"/"+m)
			}
		}
		for _, it := range n.Items {
			if it.Child != nil {
				if dead && len(it.Child.Items) == 0 {
					set[it.Child.Kind] = true
				}
				rec(it.Child, dead)
			} else if dead {
				op := it.Op
				if strings.HasSuffix(op, "probe") {
					op = "probe"
				}
				set[op] = true
			}
		}
	}
	rec(min, false)
	var ops []string
	for k := range set {
		ops = append(ops, k)
	}
	sort.Strings(ops)
	sort.Strings(frames)
	sig := fmt.Sprintf("C12:%s:%s:%s:%s", prefix, group, strings.Join(dedup(frames), "+"), strings.Join(ops, "+"))
	if prefix == "static" {
		sig = fmt.Sprintf("C12:static:%s:%s", group, strings.Join(ops, "+"))
	}
	if which == "entry" {
		var fr []string
		for _, d := range mp.Dead {
			fr = append(fr, d.Kind+"/"+d.Mode)
		}
		sort.Strings(fr)
		sig = fmt.Sprintf("C12:entry:%s:%s", group, strings.Join(dedup(fr), "+"))
	}
	if len(sig) > 140 {
		sig = sig[:140]
	}
	return sig
}

func classGroup(c string) string {
	switch c {
	case "accounts", "state-root", "nonce", "balance", "codehash", "codesize", "storage", "exist":
		return "state"
	}
	return c
}

func dedup(s []string) []string {
	var out []string
	for i, x := range s {
		if i == 0 || x != s[i-1] {
			out = append(out, x)
		}
	}
	return out
}

func bootTwin(legacy013 bool) {
	f := env.Forks{}
	if legacy013 {
		f.Override = map[int]uint64{13: math.MaxUint64}
	}
	env.BootCore(f, nil)
	common.SetBlockHeight(blockHeight)
	chainID = common.GetChainId(blockHeight)
	buildPreTable()
	installTraceHook()
}
