// C17 — the tx pool hands each transaction to the chain at most once, never ahead of nonce.
//
// Part A (sequential): a reference model (ordered pending set, executed set, stack of
// blocks) is updated alongside the real pool; every return value is compared, every pack is
// re-checked against the three clauses of the statement, and after every un-mark the
// removed block's transactions must be packable again.
// Part B (concurrent): goroutines hammer few hashes with add / mark-executed / un-mark /
// evict / pack / lookups (pack under the chain read lock and block bookkeeping under the
// chain write lock, exactly as the node does; submission without a lock, as the network
// goroutine does). The H6 yield hooks widen the two unlocked gaps. Histories are recorded at
// the client boundary and checked per hash with porcupine; the quiescent pool is compared
// with the "never pending and executed at once" invariant; the same workload runs in a
// -race build and every distinct data race is reported.
package main

import (
	"bytes"
	"encoding/json"
	"fmt"
	"io/ioutil"
	"math/rand"
	"os"
	"os/exec"
	"path/filepath"
	"regexp"
	"runtime"
	"sort"
	"strconv"
	"strings"
	"sync"
	"sync/atomic"
	"time"

	"com.tuntun.rangers/node/src/common"
	"com.tuntun.rangers/node/src/middleware"
	"com.tuntun.rangers/node/src/middleware/db"
	"com.tuntun.rangers/node/src/middleware/types"
	"com.tuntun.rangers/node/src/service"
	"com.tuntun.rangers/node/src/storage/account"
	"github.com/anishathalye/porcupine"

	"verifharness/env"
	"verifharness/mon"
)

// ---------------------------------------------------------------------------
// shared helpers

func mkTx(tag string, sender int, nonce uint64, requestID uint64, gateNonce uint64) *types.Transaction {
	tx := &types.Transaction{Source: fmt.Sprintf("0x%040x", 0xa000+sender), Type: types.TransactionTypeOperatorEvent,
		Time: tag, Nonce: nonce, RequestId: requestID, ChainId: "9500"}
	if gateNonce != 0 {
		tx.SubTransactions = []types.UserData{{Address: gateNonce}}
	}
	tx.Hash = tx.GenHash()
	return tx
}

func blockOf(height uint64, txs []*types.Transaction, evicted []common.Hash) (*types.BlockHeader, types.Receipts, *types.Block) {
	h := &types.BlockHeader{Height: height, EvictedTxs: evicted}
	copy(h.Hash[:], []byte(fmt.Sprintf("blk-%d-%d", height, len(txs))))
	var rs types.Receipts
	for _, tx := range txs {
		// receipts of every shape the executors produce: empty, with a result / message string of
		// some size, with logs of 0..4 topics and data (the shape is a function of the tx hash);
		// a block of a few dozen such records crosses the pool's 100 KiB batch-chunk threshold
		k := int(tx.Hash[0])
		scale := 1 // large payloads only in large blocks (that is where the chunk threshold matters)
		if len(txs) >= 50 {
			scale = 25
		}
		msg, result := "", ""
		switch k % 5 {
		case 1:
			msg = strings.Repeat("m", 10+k)
		case 2:
			result = "0x" + strings.Repeat("ab", (12+k/8)*scale)
		case 3:
			msg, result = strings.Repeat("e", 40), "0x"+strings.Repeat("0f", (60+k/4)*scale)
		}
		r := types.NewReceipt(nil, k%7 == 0, uint64(k)*1000, height, msg, tx.Source, result)
		r.TxHash = tx.Hash
		for l := 0; l < k%3; l++ {
			lg := &types.Log{Address: common.HexToAddress(tx.Source), Topics: make([]common.Hash, (k+l)%5), Data: bytes.Repeat([]byte{byte(k)}, ((k*13+l*700)%60)*scale), BlockNumber: height, TxHash: tx.Hash, Index: uint(l)}
			for t := range lg.Topics {
				lg.Topics[t][0], lg.Topics[t][31] = byte(t+1), byte(k)
			}
			r.Logs = append(r.Logs, lg)
		}
		rs = append(rs, r)
	}
	return h, rs, &types.Block{Header: h, Transactions: txs}
}

func newState(nonces map[string]uint64) *account.AccountDB {
	mem, _ := db.NewMemDatabase()
	adb, err := account.NewAccountDB(common.Hash{}, account.NewDatabase(mem))
	if err != nil {
		panic(err)
	}
	for s, n := range nonces {
		adb.SetNonce(common.HexToAddress(s), n)
	}
	return adb
}

// ---------------------------------------------------------------------------
// Part A: sequential histories against the reference model

type seqOp struct {
	Op   string   `json:"op"`
	Tx   int      `json:"tx,omitempty"`
	Txs  []int    `json:"txs,omitempty"`
	Ev   []int    `json:"evicted,omitempty"`
	Note string   `json:"note,omitempty"`
	Non  []uint64 `json:"state_nonces,omitempty"`
}

type seqWitness struct {
	Part    string  `json:"part"`
	History int     `json:"history"`
	Ops     []seqOp `json:"ops"`
	At      string  `json:"at"`
}

type model struct {
	pending  []int // tx indexes in insertion order
	inPend   map[int]bool
	executed map[int]bool
	blocks   [][]int
	blockEv  [][]int
}

func (m *model) removePending(i int) {
	if !m.inPend[i] {
		return
	}
	delete(m.inPend, i)
	for k, x := range m.pending {
		if x == i {
			m.pending = append(m.pending[:k], m.pending[k+1:]...)
			break
		}
	}
}
func (m *model) addPending(i int) {
	if m.inPend[i] {
		return
	}
	m.inPend[i] = true
	m.pending = append(m.pending, i)
}

func checkPack(r *mon.Run, fail func(sig, what string), packed []*types.Transaction, m *model, txs []*types.Transaction, idx map[common.Hash]int, nonces map[string]uint64) {
	r.Count("packs", 1)
	r.Count("packed_txs", int64(len(packed)))
	if len(packed) > 200 {
		fail("C17:pack:over-limit", fmt.Sprintf("pack of %d transactions exceeds the per-block limit 200", len(packed)))
	}
	seen := map[common.Hash]bool{}
	expected := map[string]uint64{}
	last := map[string]uint64{}
	hasLast := map[string]bool{}
	for _, tx := range packed {
		i, known := idx[tx.Hash]
		if seen[tx.Hash] {
			fail("C17:pack:duplicate", "pack contains "+tx.Hash.Hex()+" twice")
		}
		seen[tx.Hash] = true
		if !known {
			fail("C17:pack:unknown-tx", "pack contains a transaction that was never submitted: "+tx.Hash.Hex())
			continue
		}
		if m.executed[i] {
			fail("C17:pack:executed-tx-packed", fmt.Sprintf("pack contains tx %d which is executed on the canonical chain", i))
		} else if !m.inPend[i] {
			fail("C17:pack:non-pending-tx-packed", fmt.Sprintf("pack contains tx %d which is not pending", i))
		}
		if tx.RequestId != 0 {
			continue
		}
		s := tx.Source
		if _, ok := expected[s]; !ok {
			expected[s] = nonces[s]
		}
		if hasLast[s] && tx.Nonce < last[s] {
			fail("C17:pack:nonce-order", fmt.Sprintf("sender %s: nonce %d packed after nonce %d", s, tx.Nonce, last[s]))
		}
		last[s], hasLast[s] = tx.Nonce, true
		if tx.Nonce > expected[s] {
			fail("C17:pack:nonce-ahead", fmt.Sprintf("sender %s: nonce %d packed while the next expected nonce is %d (state nonce %d)", s, tx.Nonce, expected[s], nonces[s]))
		}
		if tx.Nonce == expected[s] {
			expected[s]++
		}
	}
}

func seqHistory(r *mon.Run, pool service.TransactionPool, hist int, rng *rand.Rand) {
	nTx := 5 + rng.Intn(36)
	nSenders := 1 + rng.Intn(6)
	big := rng.Intn(40) == 0
	if big {
		nTx = 230 + rng.Intn(60)
	}
	var txs []*types.Transaction
	idx := map[common.Hash]int{}
	nextNonce := map[int]uint64{}
	for i := 0; i < nTx; i++ {
		s := rng.Intn(nSenders)
		var tx *types.Transaction
		if rng.Intn(4) == 0 { // gate transaction: sequenced by request id, no nonce check
			tx = mkTx(fmt.Sprintf("h%d-%d", hist, i), s, uint64(rng.Intn(5)), uint64(1+rng.Intn(1000)), uint64(rng.Intn(2)*(1+rng.Intn(50))))
		} else {
			n := nextNonce[s]
			switch rng.Intn(6) {
			case 0:
				n += uint64(1 + rng.Intn(3)) // gap
			case 1:
				if n > 0 {
					n-- // repeat / too low
				}
			}
			tx = mkTx(fmt.Sprintf("h%d-%d", hist, i), s, n, 0, 0)
			if n >= nextNonce[s] {
				nextNonce[s] = n + 1
			}
		}
		txs = append(txs, tx)
		idx[tx.Hash] = i
	}
	m := &model{inPend: map[int]bool{}, executed: map[int]bool{}}
	var ops []seqOp
	fail := func(sig, what string) {
		r.Violation(sig, what, seqWitness{Part: "sequential", History: hist, Ops: append([]seqOp{}, ops...), At: what})
	}
	nOps := 30 + rng.Intn(171)
	if big {
		nOps = nTx + 40
	}
	height := uint64(1)
	for o := 0; o < nOps; o++ {
		c := rng.Intn(100)
		if big && o < nTx {
			c = 0
		}
		switch {
		case c < 40: // add
			i := rng.Intn(nTx)
			if big && o < nTx {
				i = o
			}
			ops = append(ops, seqOp{Op: "add", Tx: i})
			ok, err := pool.AddTransaction(txs[i])
			want := !m.inPend[i] && !m.executed[i]
			r.Count("seq_add", 1)
			if ok != want || (err == nil) != want {
				if m.executed[i] && ok {
					fail("C17:add:executed-tx-accepted", fmt.Sprintf("AddTransaction accepted tx %d which is executed on the canonical chain", i))
				} else {
					fail("C17:add:wrong-result", fmt.Sprintf("AddTransaction(tx %d) = (%v,%v), model expects accept=%v", i, ok, err, want))
				}
			}
			if ok {
				m.addPending(i)
			}
		case c < 58: // a block is added: what a pack would return, or an arbitrary subset (block from the network)
			var in []int
			if rng.Intn(2) == 0 {
				nonces := map[string]uint64{}
				packed := pool.PackForCast(height, newState(nonces))
				for _, tx := range packed {
					if rng.Intn(5) != 0 {
						in = append(in, idx[tx.Hash])
					}
				}
			} else {
				for k := 0; k < 1+rng.Intn(4); k++ {
					i := rng.Intn(nTx)
					if !m.executed[i] && !contains(in, i) {
						in = append(in, i)
					}
				}
			}
			var ev []int
			var evh []common.Hash
			for k := 0; k < rng.Intn(3); k++ {
				i := rng.Intn(nTx)
				if m.inPend[i] && !contains(in, i) && !contains(ev, i) {
					ev = append(ev, i)
					evh = append(evh, txs[i].Hash)
				}
			}
			if len(in) == 0 {
				continue
			}
			var btx []*types.Transaction
			for _, i := range in {
				btx = append(btx, txs[i])
			}
			ops = append(ops, seqOp{Op: "mark-executed", Txs: in, Ev: ev})
			h, rs, _ := blockOf(height, btx, evh)
			height++
			pool.MarkExecuted(h, rs, btx, evh)
			r.Count("seq_mark", 1)
			for _, i := range in {
				m.executed[i] = true
				m.removePending(i)
			}
			for _, i := range ev {
				m.removePending(i)
			}
			m.blocks = append(m.blocks, in)
			m.blockEv = append(m.blockEv, ev)
		case c < 70: // reorg: the last block is removed
			if len(m.blocks) == 0 {
				continue
			}
			in := m.blocks[len(m.blocks)-1]
			ev := m.blockEv[len(m.blockEv)-1]
			m.blocks, m.blockEv = m.blocks[:len(m.blocks)-1], m.blockEv[:len(m.blockEv)-1]
			var btx []*types.Transaction
			var evh []common.Hash
			for _, i := range in {
				btx = append(btx, txs[i])
			}
			for _, i := range ev {
				evh = append(evh, txs[i].Hash)
			}
			ops = append(ops, seqOp{Op: "unmark-executed", Txs: in, Ev: ev})
			_, _, blk := blockOf(height, btx, evh)
			pool.UnMarkExecuted(blk)
			r.Count("seq_unmark", 1)
			for _, i := range in {
				delete(m.executed, i)
				m.addPending(i)
			}
			// pending again and packable once more
			nonces := map[string]uint64{}
			minN := map[string]uint64{}
			for _, i := range in {
				tx := txs[i]
				if tx.RequestId == 0 {
					if v, ok := minN[tx.Source]; !ok || tx.Nonce < v {
						minN[tx.Source] = tx.Nonce
					}
				}
			}
			for s, n := range minN {
				nonces[s] = n
			}
			packed := pool.PackForCast(height, newState(nonces))
			checkPack(r, fail, packed, m, txs, idx, nonces)
			inPack := map[common.Hash]bool{}
			for _, tx := range packed {
				inPack[tx.Hash] = true
			}
			for _, i := range in {
				tx := txs[i]
				if !pool.IsExisted(tx.Hash) || pool.GetExecuted(tx.Hash) != nil {
					fail("C17:unmark:not-pending-again", fmt.Sprintf("tx %d of the removed block is not pending again (existed=%v executed=%v)", i, pool.IsExisted(tx.Hash), pool.GetExecuted(tx.Hash) != nil))
				}
				eligible := tx.RequestId != 0 || tx.Nonce == minN[tx.Source]
				if eligible && len(m.pending) <= 200 && !inPack[tx.Hash] {
					fail("C17:unmark:not-packable-again", fmt.Sprintf("tx %d of the removed block is pending and in sequence but a pack does not return it", i))
				}
				r.Count("repack_checks", 1)
			}
		case c < 85: // pack with generated state nonces
			nonces := map[string]uint64{}
			var nl []uint64
			for s := 0; s < nSenders; s++ {
				n := uint64(rng.Intn(int(nextNonce[s]) + 2))
				nonces[fmt.Sprintf("0x%040x", 0xa000+s)] = n
				nl = append(nl, n)
			}
			ops = append(ops, seqOp{Op: "pack", Non: nl})
			packed := pool.PackForCast(height, newState(nonces))
			checkPack(r, fail, packed, m, txs, idx, nonces)
		default: // lookups
			i := rng.Intn(nTx)
			ops = append(ops, seqOp{Op: "lookup", Tx: i})
			ex := pool.IsExisted(txs[i].Hash)
			got, err := pool.GetTransaction(txs[i].Hash)
			want := m.inPend[i] || m.executed[i]
			r.Count("seq_lookup", 1)
			if ex != want || (err == nil) != want || (want && (got == nil || got.Hash != txs[i].Hash)) {
				fail("C17:lookup:wrong-result", fmt.Sprintf("tx %d: IsExisted=%v GetTransaction err=%v, model pending=%v executed=%v", i, ex, err, m.inPend[i], m.executed[i]))
			}
			if (pool.GetExecuted(txs[i].Hash) != nil) != m.executed[i] {
				fail("C17:lookup:executed-flag", fmt.Sprintf("tx %d: GetExecuted=%v, model executed=%v", i, pool.GetExecuted(txs[i].Hash) != nil, m.executed[i]))
			}
		}
	}
	// final sweep: every transaction of the history is looked up once more
	for i := range txs {
		ex := pool.IsExisted(txs[i].Hash)
		r.Count("seq_final_lookups", 1)
		if want := m.inPend[i] || m.executed[i]; ex != want {
			fail("C17:lookup:wrong-result", fmt.Sprintf("at the end, tx %d: IsExisted=%v, model pending=%v executed=%v", i, ex, m.inPend[i], m.executed[i]))
		}
		if (pool.GetExecuted(txs[i].Hash) != nil) != m.executed[i] {
			fail("C17:lookup:executed-flag", fmt.Sprintf("at the end, tx %d: GetExecuted=%v, model executed=%v", i, pool.GetExecuted(txs[i].Hash) != nil, m.executed[i]))
		}
	}
	// final agreement of the pending set
	rec := pool.GetReceived()
	got := map[common.Hash]bool{}
	for _, tx := range rec {
		got[tx.Hash] = true
	}
	for i := range txs {
		if got[txs[i].Hash] != m.inPend[i] {
			fail("C17:final:pending-set-differs", fmt.Sprintf("tx %d: in pool pending=%v, model pending=%v", i, got[txs[i].Hash], m.inPend[i]))
		}
	}
	// drain for the next history
	var ev []common.Hash
	for _, tx := range rec {
		ev = append(ev, tx.Hash)
	}
	if len(ev) > 0 {
		pool.MarkExecuted(&types.BlockHeader{}, nil, nil, ev)
	}
	r.Count("seq_histories", 1)
	r.Count("seq_ops", int64(len(ops)))
	if len(m.blocks) > 0 || true {
		r.DistinctHash("seq_histories", uint64(hist)+1)
	}
	if hist < 2 {
		r.Sample(map[string]interface{}{"part": "sequential", "history": hist, "txs": nTx, "first_ops": ops[:minInt(12, len(ops))]})
	}
}

func contains(l []int, x int) bool {
	for _, y := range l {
		if y == x {
			return true
		}
	}
	return false
}
func minInt(a, b int) int {
	if a < b {
		return a
	}
	return b
}

// ---------------------------------------------------------------------------
// Part B: concurrent histories

type rec struct {
	Client int    `json:"c"`
	Kind   string `json:"k"`
	Hash   int    `json:"h"`
	Out    bool   `json:"o"`
	Call   int64  `json:"t0"`
	Ret    int64  `json:"t1"`
}

type inp struct {
	Kind string
	Hash int
}

const (
	stAbsent = iota
	stPending
	stExecuted
)

var poolModel = porcupine.Model{
	Partition: func(history []porcupine.Operation) [][]porcupine.Operation {
		m := map[int][]porcupine.Operation{}
		for _, op := range history {
			h := op.Input.(inp).Hash
			m[h] = append(m[h], op)
		}
		var out [][]porcupine.Operation
		for _, v := range m {
			out = append(out, v)
		}
		return out
	},
	Init: func() interface{} { return stAbsent },
	Step: func(state, input, output interface{}) (bool, interface{}) {
		st := state.(int)
		in := input.(inp)
		out := output.(bool)
		switch in.Kind {
		case "add":
			switch st {
			case stAbsent:
				return out, stPending
			case stPending:
				// two overlapping submissions of one pending transaction may both report success
				// (the pending set holds it once); the statement only forbids re-admitting an
				// executed transaction, so the return value is not judged here
				return true, st
			}
			return !out, st
		case "mark":
			return true, stExecuted
		case "evict":
			if st == stPending {
				return true, stAbsent
			}
			return true, st
		case "unmark-del": // first half of UnMarkExecuted: the executed mark is deleted
			if st == stExecuted {
				return true, stAbsent
			}
			return true, st
		case "unmark-add": // second half: re-added unless it exists
			if st == stAbsent {
				return true, stPending
			}
			return true, st
		case "existed", "get":
			return out == (st != stAbsent), st
		case "executed":
			return out == (st == stExecuted), st
		case "packed":
			return out == (st == stPending), st
		}
		return false, st
	},
	DescribeOperation: func(input, output interface{}) string {
		return fmt.Sprintf("%s(h%d)->%v", input.(inp).Kind, input.(inp).Hash, output)
	},
}

type concWitness struct {
	Part    string `json:"part"`
	History int    `json:"history"`
	Recs    []rec  `json:"records"`
	At      string `json:"at"`
}

func concHistory(r *mon.Run, pool service.TransactionPool, hist int, rng *rand.Rand) {
	nHash := 3 + rng.Intn(4)
	nG := 4 + rng.Intn(5)
	nOps := 20 + rng.Intn(41)
	txs := make([]*types.Transaction, nHash)
	for i := range txs {
		// gate transactions (request id != 0): no nonce filtering, so "packed" is an exact read of the pending state
		txs[i] = mkTx(fmt.Sprintf("c%d-%d-%d", r.Seed, hist, i), i, 0, uint64(1+i), uint64(1+rng.Intn(100)))
	}
	// yield hooks: with probability 1/2 reschedule / sleep in the two unlocked gaps
	yieldSeed := rng.Int63()
	var yc int64
	var order []string
	var omu sync.Mutex
	service.VerifYieldHook = func(point string) {
		n := atomic.AddInt64(&yc, 1)
		x := uint64(yieldSeed) ^ uint64(n)*0x9e3779b97f4a7c15
		x ^= x >> 29
		omu.Lock()
		if len(order) < 64 {
			order = append(order, point[5:8])
		}
		omu.Unlock()
		switch x % 4 {
		case 0:
			runtime.Gosched()
		case 1:
			time.Sleep(time.Duration(20+x%200) * time.Microsecond)
		}
	}
	var clock int64
	var mu sync.Mutex
	var recs []rec
	record := func(rs ...rec) {
		mu.Lock()
		recs = append(recs, rs...)
		mu.Unlock()
	}
	var wg sync.WaitGroup
	height := uint64(hist*1000 + 1)
	for g := 0; g < nG; g++ {
		wg.Add(1)
		grng := rand.New(rand.NewSource(rng.Int63()))
		go func(g int) {
			defer wg.Done()
			for o := 0; o < nOps; o++ {
				h := grng.Intn(nHash)
				switch c := grng.Intn(100); {
				case c < 34:
					t0 := atomic.AddInt64(&clock, 1)
					ok, _ := pool.AddTransaction(txs[h])
					t1 := atomic.AddInt64(&clock, 1)
					record(rec{g, "add", h, ok, t0, t1})
				case c < 52: // block added (1-2 txs)
					hs := []int{h}
					if grng.Intn(3) == 0 {
						if h2 := grng.Intn(nHash); h2 != h {
							hs = append(hs, h2)
						}
					}
					var btx []*types.Transaction
					for _, x := range hs {
						btx = append(btx, txs[x])
					}
					hd, rs, _ := blockOf(atomic.AddUint64(&height, 1), btx, nil)
					middleware.LockBlockchain("verif-mark")
					t0 := atomic.AddInt64(&clock, 1)
					pool.MarkExecuted(hd, rs, btx, nil)
					t1 := atomic.AddInt64(&clock, 1)
					middleware.UnLockBlockchain("verif-mark")
					for _, x := range hs {
						record(rec{g, "mark", x, true, t0, t1})
					}
				case c < 62: // block removed
					_, _, blk := blockOf(atomic.AddUint64(&height, 1), []*types.Transaction{txs[h]}, nil)
					middleware.LockBlockchain("verif-unmark")
					t0 := atomic.AddInt64(&clock, 1)
					pool.UnMarkExecuted(blk)
					t1 := atomic.AddInt64(&clock, 1)
					middleware.UnLockBlockchain("verif-unmark")
					record(rec{g, "unmark-del", h, true, t0, t1}, rec{g, "unmark-add", h, true, t0, t1})
				case c < 67: // eviction through a block's evicted list
					middleware.LockBlockchain("verif-evict")
					t0 := atomic.AddInt64(&clock, 1)
					pool.MarkExecuted(&types.BlockHeader{}, nil, nil, []common.Hash{txs[h].Hash})
					t1 := atomic.AddInt64(&clock, 1)
					middleware.UnLockBlockchain("verif-evict")
					record(rec{g, "evict", h, true, t0, t1})
				case c < 80: // pack (proposer) under the chain read lock
					middleware.RLockBlockchain("verif-pack")
					t0 := atomic.AddInt64(&clock, 1)
					packed := pool.PackForCast(1, newState(nil))
					t1 := atomic.AddInt64(&clock, 1)
					middleware.RUnLockBlockchain("verif-pack")
					in := map[common.Hash]bool{}
					for _, tx := range packed {
						in[tx.Hash] = true
					}
					var rs []rec
					for x := range txs {
						rs = append(rs, rec{g, "packed", x, in[txs[x].Hash], t0, t1})
					}
					record(rs...)
				case c < 90:
					t0 := atomic.AddInt64(&clock, 1)
					ex := pool.IsExisted(txs[h].Hash)
					t1 := atomic.AddInt64(&clock, 1)
					record(rec{g, "existed", h, ex, t0, t1})
				case c < 95:
					t0 := atomic.AddInt64(&clock, 1)
					_, err := pool.GetTransaction(txs[h].Hash)
					t1 := atomic.AddInt64(&clock, 1)
					record(rec{g, "get", h, err == nil, t0, t1})
				default:
					t0 := atomic.AddInt64(&clock, 1)
					ex := pool.GetExecuted(txs[h].Hash) != nil
					t1 := atomic.AddInt64(&clock, 1)
					record(rec{g, "executed", h, ex, t0, t1})
				}
			}
		}(g)
	}
	wg.Wait()
	service.VerifYieldHook = nil
	r.Count("conc_histories", 1)
	r.Count("conc_ops", int64(len(recs)))
	r.Count("yield_events", atomic.LoadInt64(&yc))
	r.Distinct("interleaving_signatures", []byte(strings.Join(order, "")))
	fail := func(sig, what string) {
		sort.Slice(recs, func(a, b int) bool { return recs[a].Call < recs[b].Call })
		r.Violation(sig, what, concWitness{Part: "concurrent", History: hist, Recs: recs, At: what})
	}
	// quiescent invariant: never pending and executed at once
	pend := map[common.Hash]bool{}
	for _, tx := range pool.GetReceived() {
		pend[tx.Hash] = true
	}
	for i, tx := range txs {
		if pend[tx.Hash] && pool.GetExecuted(tx.Hash) != nil {
			fail("C17:quiescent:tx-both-pending-and-executed", fmt.Sprintf("after the history tx h%d is executed on the chain and pending in the pool at once (a later pack hands it to the chain again)", i))
		}
	}
	// overlap statistics
	overl := 0
	byHash := map[int][]rec{}
	for _, x := range recs {
		byHash[x.Hash] = append(byHash[x.Hash], x)
	}
	for _, l := range byHash {
		for a := 0; a < len(l); a++ {
			for b := a + 1; b < len(l); b++ {
				if l[a].Client != l[b].Client && l[a].Call < l[b].Ret && l[b].Call < l[a].Ret {
					overl++
				}
			}
		}
	}
	r.Count("overlapping_same_hash_pairs", int64(overl))
	if overl > 0 {
		r.DistinctHash("nontrivial_conc_histories", uint64(hist)+1)
	}
	// linearizability per hash
	var ops []porcupine.Operation
	for _, x := range recs {
		ops = append(ops, porcupine.Operation{ClientId: x.Client, Input: inp{x.Kind, x.Hash}, Output: x.Out, Call: x.Call, Return: x.Ret})
	}
	res, _ := porcupine.CheckOperationsVerbose(poolModel, ops, 20*time.Second)
	switch res {
	case porcupine.Ok:
		r.Count("porcupine_ok", 1)
	case porcupine.Illegal:
		r.Count("porcupine_illegal", 1)
		// find an offending hash for the message
		bad := -1
		for h, l := range byHash {
			var o []porcupine.Operation
			for _, x := range l {
				o = append(o, porcupine.Operation{ClientId: x.Client, Input: inp{x.Kind, x.Hash}, Output: x.Out, Call: x.Call, Return: x.Ret})
			}
			if porcupine.CheckOperations(poolModel, o) == false {
				bad = h
				break
			}
		}
		fail("C17:linearizability:history-not-linearizable", fmt.Sprintf("the recorded history of hash h%d is not linearizable w.r.t. the per-transaction model absent/pending/executed", bad))
	default:
		r.Count("porcupine_unknown", 1)
		r.Inconclusive("porcupine timed out on concurrent history %d", hist)
	}
	if hist < 1 {
		sort.Slice(recs, func(a, b int) bool { return recs[a].Call < recs[b].Call })
		r.Sample(map[string]interface{}{"part": "concurrent", "goroutines": nG, "hashes": nHash, "first_records": recs[:minInt(14, len(recs))]})
	}
	// drain
	var ev []common.Hash
	for _, tx := range pool.GetReceived() {
		ev = append(ev, tx.Hash)
	}
	if len(ev) > 0 {
		pool.MarkExecuted(&types.BlockHeader{}, nil, nil, ev)
	}
}

// ---------------------------------------------------------------------------

// ballastHistory: a well filled pool (thousands of pending gate transactions) whose pending list is
// read all the time by lock-free readers (GetReceived from the rpc side, PackForCast) while
// transactions are submitted and blocks containing them are marked executed. After every
// MarkExecuted has returned, the executed transaction must be gone from every view of the
// pending list; the pool is otherwise idle, so a stale view would stay.
func ballastHistory(r *mon.Run, pool service.TransactionPool, hist int, rng *rand.Rand) {
	nBallast := 6000 + rng.Intn(6000)
	var ballast []common.Hash
	for i := 0; i < nBallast; i++ {
		tx := mkTx(fmt.Sprintf("ballast%d-%d", hist, i), 50+i%7, 0, uint64(1000+i), uint64(1+i%40))
		if ok, _ := pool.AddTransaction(tx); ok {
			ballast = append(ballast, tx.Hash)
		}
	}
	var stop int32
	var reads int64
	var wg sync.WaitGroup
	for g := 0; g < 2; g++ {
		wg.Add(1)
		go func(g int) {
			defer wg.Done()
			for atomic.LoadInt32(&stop) == 0 {
				if g == 0 {
					pool.GetReceived()
				} else {
					pool.PackForCast(uint64(10), newState(map[string]uint64{}))
				}
				atomic.AddInt64(&reads, 1)
			}
		}(g)
	}
	rounds := 120
	fail := func(sig, what string, round int) {
		r.Violation(sig, what, map[string]interface{}{"part": "ballast", "history": hist, "round": round, "ballast": len(ballast)})
	}
	for round := 0; round < rounds; round++ {
		tx := mkTx(fmt.Sprintf("b%d-r%d", hist, round), 3, 0, uint64(5_000_000+round), uint64(1+round%9))
		if ok, err := pool.AddTransaction(tx); !ok {
			fail("C17:ballast:add-rejected", fmt.Sprintf("round %d: a fresh transaction was not admitted: %v", round, err), round)
			continue
		}
		time.Sleep(time.Duration(rng.Intn(300)) * time.Microsecond)
		h, rs, _ := blockOf(uint64(100+round), []*types.Transaction{tx}, nil)
		pool.MarkExecuted(h, rs, []*types.Transaction{tx}, nil)
		r.Count("ballast_rounds", 1)
		if ok, _ := pool.AddTransaction(tx); ok {
			fail("C17:add:executed-tx-accepted", fmt.Sprintf("round %d: the executed transaction was admitted again", round), round)
		}
		for _, t := range pool.GetReceived() {
			if t.Hash == tx.Hash {
				fail("C17:ballast:executed-tx-still-listed-as-pending", fmt.Sprintf("round %d: GetReceived lists a transaction after MarkExecuted returned (%d pending)", round, len(ballast)), round)
				break
			}
		}
		for _, t := range pool.PackForCast(uint64(10), newState(map[string]uint64{})) {
			if t.Hash == tx.Hash {
				fail("C17:pack:executed-tx-packed", fmt.Sprintf("round %d: PackForCast returns a transaction after MarkExecuted returned (%d pending)", round, len(ballast)), round)
				break
			}
		}
	}
	atomic.StoreInt32(&stop, 1)
	wg.Wait()
	r.Count("ballast_concurrent_reads", atomic.LoadInt64(&reads))
	r.Count("ballast_histories", 1)
	// drain for the next history
	pool.MarkExecuted(&types.BlockHeader{}, nil, nil, ballast)
}

func child(args []string) {
	r := mon.Start("C17")
	part := args[0]
	from, _ := strconv.Atoi(args[1])
	to, _ := strconv.Atoi(args[2])
	env.BootServices(env.Forks{})
	common.SetBlockHeight(10)
	pool := service.GetTransactionPool()
	for h := from; h < to; h++ {
		r.CaseBegin([]byte(fmt.Sprintf("%s history %d", part, h)))
		switch part {
		case "seq":
			seqHistory(r, pool, h, r.Rand("c17-seq", h))
		case "ballast":
			ballastHistory(r, pool, h, r.Rand("c17-ballast", h))
		default:
			concHistory(r, pool, h, r.Rand("c17-conc", h))
		}
	}
	r.Finish(mon.Coverage{Evaluations: int64(to - from)})
}

var reRace = regexp.MustCompile(`(?s)WARNING: DATA RACE\n(.*?)\n==================`)
var reFrame = regexp.MustCompile(`(?m)^  (com\.tuntun\.rangers/node/src/[^\s(]+(?:\([^)]*\))?[^\s(]*)\(`)
var reAnyFrame = regexp.MustCompile(`(?m)^  ([A-Za-z0-9_./\-]+(?:\([^)]*\))?[A-Za-z0-9_.]*)\(`)

// raceSignatures parses race-detector logs: one signature per pair of outermost repository
// frames below the two accesses (line numbers stripped).
func raceSignatures(logs string) map[string]string {
	out := map[string]string{}
	for _, m := range reRace.FindAllStringSubmatch(logs, -1) {
		body := m[1]
		parts := regexp.MustCompile(`(?m)^(?:Previous )?(?:[Rr]ead|[Ww]rite|[Aa]tomic [a-z]+) (?:at|by).*$`).Split(body, -1)
		var sides []string
		for _, p := range parts[1:] {
			if i := strings.Index(p, "\nGoroutine "); i >= 0 {
				p = p[:i]
			}
			f := reFrame.FindStringSubmatch(p)
			if f != nil {
				sides = append(sides, strings.TrimPrefix(f[1], "com.tuntun.rangers/node/src/"))
			} else if a := reAnyFrame.FindStringSubmatch(p); a != nil {
				sides = append(sides, a[1])
			}
			if len(sides) == 2 {
				break
			}
		}
		sort.Strings(sides)
		sig := strings.Join(sides, "|")
		if _, ok := out[sig]; !ok {
			if len(body) > 2500 {
				body = body[:2500]
			}
			out[sig] = body
		}
	}
	return out
}

func main() {
	if args, ok := mon.IsChildInvocation(); ok {
		child(args)
		return
	}
	r := mon.Start("C17")
	defer mon.CleanWork()
	type batch struct {
		part     string
		from, to int
		race     bool
	}
	var batches []batch
	if p := mon.ReplayArg(); p != "" {
		v, err := mon.LoadReplay(p)
		if err != nil {
			fmt.Println("MACHINERY:", err)
			os.Exit(2)
		}
		var w struct {
			Part     string          `json:"part"`
			History  int             `json:"history"`
			Scenario json.RawMessage `json:"scenario"`
		}
		json.Unmarshal(v.Witness, &w)
		if len(w.Scenario) > 0 { // a real-chain witness: replayed by the block-store driver in pool-only mode
			cmd := exec.Command(os.Getenv("VERIF_C05_BIN"), "--replay", p)
			cmd.Env = append(os.Environ(), "VERIF_POOL_ONLY=1")
			cmd.Stdout, cmd.Stderr = os.Stdout, os.Stderr
			if err := cmd.Run(); err != nil {
				if ee, ok := err.(*exec.ExitError); ok {
					os.Exit(ee.ExitCode())
				}
				os.Exit(2)
			}
			os.Exit(0)
		}
		r.Seed = v.Seed
		part := "seq"
		if w.Part == "concurrent" {
			part = "conc"
		}
		// concurrent histories depend on the schedule: repeat the same history many times
		reps := 1
		if part == "conc" {
			reps = 40
		}
		for i := 0; i < reps; i++ {
			batches = append(batches, batch{part, w.History, w.History + 1, false})
		}
	} else {
		nSeq := r.Pick(1600, 160000)
		nConc := r.Pick(640, 40000)
		nRace := r.Pick(240, 6000)
		per := r.Pick(100, 2000)
		for f := 0; f < nSeq; f += per {
			batches = append(batches, batch{"seq", f, minInt(f+per, nSeq), false})
		}
		perC := r.Pick(40, 500)
		for f := 0; f < nConc; f += perC {
			batches = append(batches, batch{"conc", f, minInt(f+perC, nConc), false})
		}
		for f := 0; f < nRace; f += perC {
			batches = append(batches, batch{"conc", f, minInt(f+perC, nRace), true})
		}
		nBallast := r.Pick(4, 48)
		for f := 0; f < nBallast; f += 2 {
			batches = append(batches, batch{"ballast", f, minInt(f+2, nBallast), false})
		}
	}
	raceBin := os.Getenv("VERIF_RACE_BIN")
	var rmu sync.Mutex
	races := map[string]string{}
	mon.Parallel(len(batches), 8, func(i int) {
		b := batches[i]
		spec := mon.ChildSpec{Label: fmt.Sprintf("%s-%d", b.part, b.from), Args: []string{b.part, strconv.Itoa(b.from), strconv.Itoa(b.to)}, Timeout: time.Duration(r.Pick(4, 25)) * time.Minute}
		var logBase string
		if b.race {
			if raceBin == "" {
				r.Note("no race binary available; race batch skipped")
				return
			}
			spec.Bin = raceBin
			logBase = filepath.Join(mon.WorkDir(), fmt.Sprintf("race-%d", i))
			spec.Env = []string{"GORACE=halt_on_error=0 log_path=" + logBase}
		}
		res := r.RunChild(spec)
		if b.race {
			r.Absorb(res, "C17:pool", 66)
			r.Count("race_detector_batches", 1)
			files, _ := filepath.Glob(logBase + ".*")
			var all strings.Builder
			for _, f := range files {
				bb, _ := ioutil.ReadFile(f)
				all.Write(bb)
			}
			r.Count("race_reports_raw", int64(strings.Count(all.String(), "WARNING: DATA RACE")))
			rmu.Lock()
			for s, body := range raceSignatures(all.String()) {
				if _, ok := races[s]; !ok {
					races[s] = body
				}
			}
			rmu.Unlock()
		} else {
			r.Absorb(res, "C17:pool")
		}
		os.RemoveAll(res.Dir)
	})
	// real-chain part: the block-store driver (cmd/c05) in pool-only mode — blocks with transactions
	// inserted, reorganised away and re-inserted on a booted node, every physical write of chosen
	// inserts/reorgs a crash point; judged: canonical transactions are marked executed and not pending,
	// transactions of removed blocks are not marked executed and (without restart) pending again
	if c05 := os.Getenv("VERIF_C05_BIN"); c05 != "" && mon.ReplayArg() == "" {
		out := filepath.Join(mon.WorkDir(), "chain-partial.json")
		cmd := exec.Command(c05)
		cmd.Env = append(os.Environ(), "VERIF_POOL_ONLY=1", "VERIF_CHILD_OUT="+out, "VERIF_TIER="+r.Tier, fmt.Sprintf("VERIF_SEED=%d", r.Seed))
		logf, _ := os.Create(filepath.Join(mon.WorkDir(), "chain.log"))
		cmd.Stdout, cmd.Stderr = logf, logf
		err := cmd.Run()
		logf.Close()
		if err != nil {
			r.Inconclusive("real-chain part did not complete: %v", err)
		} else if e := r.Merge(out); e != nil {
			r.Inconclusive("real-chain part produced no result: %v", e)
		}
		r.Count("chain_part_runs", 1)
	}
	for s, body := range races {
		if strings.HasPrefix(s, "middleware.(*Loglock)") && strings.Contains(s, "|middleware.(*Loglock)") {
			// the chain lock's own timing statistic (Loglock.begin) is written under the read lock;
			// it is not pool state and not part of this property: recorded, not judged
			r.Count("info_races_outside_pool", 1)
			r.Note("race outside the pool (not judged): %s", s)
			continue
		}
		r.Violation("C17:race:"+s, "the race detector reported a data race between "+strings.Replace(s, "|", " and ", 1), map[string]interface{}{"part": "concurrent", "history": 0, "report": body})
	}
	r.Count("distinct_races", int64(len(races)))
	mon.CleanWork()
	r.Finish(mon.Coverage{
		Evaluations:        r.Get("seq_histories") + r.Get("conc_histories"),
		DistinctNontrivial: int64(r.DistinctCount("seq_histories") + r.DistinctCount("nontrivial_conc_histories")),
		Rule: "sequential: seeded histories of add / block added (from a real pack or arbitrary) with evictions / block removed / pack with generated state nonces / lookups over 5-40 (sometimes 230-290) transactions from 1-6 senders, gate and nonce-checked; every return value compared with a reference model, every pack checked for duplicates, limit, per-sender nonce order and not-ahead-of-expected-nonce, re-pack after un-mark. " +
			"concurrent: 4-8 goroutines x 20-60 ops over 3-6 hashes with the node's own locking discipline, H6 yields armed; porcupine per-hash linearizability + quiescent never-pending-and-executed invariant; repeated under the race detector. Non-trivial concurrent history: >= 2 operations on one hash overlapped in time",
		Assumptions: []string{"UnMarkExecuted is modelled as two atomic steps (delete executed mark, re-add) in either order: sound, slightly weaker than the implementation order", "pack and block bookkeeping are serialised by the chain lock as in the node; submission takes no lock"},
		MustObserve: []string{"seq_histories", "packs", "repack_checks", "conc_histories", "overlapping_same_hash_pairs", "yield_events", "porcupine_ok", "race_detector_batches", "chain_part_runs", "pool_tx_checks", "crash_points"},
	})
}
