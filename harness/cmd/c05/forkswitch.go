// C05, fork-switch phase: whole competing branches are delivered through the sync path's block
// fork switch (hook H4e, core.VerifBlockForkSwitch = newBlockChainFork + rcv + triggerOnFork +
// triggerOnChain + destroy) instead of block by block through AddBlockOnChain. The local chain
// (z, a1..aN) is put on the node with AddBlockOnChain, then one or more switches are driven and
// after each of them the invariant walker and the reference-tree head rule run. Crash points: the
// H2 write counter ends the process before the N-th physical write of one switch (fork-store
// writes, state batches, the k removals and the inserts of triggerOnChain all count), a fresh
// process restarts on the same directory, the walker runs, the head must be on the path old head
// -> ancestor -> branch tip, and the branch is synchronised again the way the sync processor
// would do it (common ancestor = highest block of the piece that is on the local chain).
package main

import (
	"encoding/hex"
	"encoding/json"
	"fmt"
	"io/ioutil"
	"math/rand"
	"os"
	"path/filepath"
	"sort"
	"time"

	"com.tuntun.rangers/node/src/common"
	"com.tuntun.rangers/node/src/core"
	"com.tuntun.rangers/node/src/middleware/db"
	"com.tuntun.rangers/node/src/middleware/types"

	"verifharness/env"
	"verifharness/mon"
)

type FSSwitch struct {
	Ancestor  string   `json:"ancestor"`
	Branch    []string `json:"branch"`
	Corrupt   string   `json:"corrupt,omitempty"` // state-root | tx-root | pre-hash | hash | request-id | height-gap
	CorruptAt int      `json:"corrupt_at"`
	Mode      string   `json:"mode"` // fork-point | below-fork-point | local-segment | repeat | retry-valid
}

type FSSpec struct {
	Class       string     `json:"class"`
	Switches    []FSSwitch `json:"switches"`
	ArmSwitch   int        `json:"arm_switch"` // -1: none
	ArmN        int        `json:"arm_n"`
	ExpectAfter string     `json:"expect_after,omitempty"` // head the armed switch reached in the unarmed run
	Transit     []string   `json:"transit,omitempty"`      // heads seen at the write hook during that switch
}

type FSResult struct {
	Mode    string   `json:"mode"`
	Corrupt string   `json:"corrupt,omitempty"`
	Err     string   `json:"fork_error,omitempty"`
	OnChain bool     `json:"on_chain_result"`
	Before  string   `json:"head_before"`
	After   string   `json:"head_after"`
	Writes  int      `json:"writes"`
	Heads   []string `json:"heads,omitempty"`
	Outcome string   `json:"outcome"`
	Removed int      `json:"removed"`
	Branch  int      `json:"branch_len"`
	NTx     int      `json:"branch_txs"`
}

type FSRunResult struct {
	Switches []FSResult `json:"switches"`
}

// ---------------------------------------------------------------------------
// generation

func genFS(rng *rand.Rand, id int) *Scenario {
	sc := &Scenario{ID: id, ArmAt: -1}
	sc.Nodes = append(sc.Nodes, NodeSpec{Name: "z", Parent: "g", QN: 1, PV: 100, NTx: 1})
	la := 2 + rng.Intn(4)
	mode := []string{"fork-point", "fork-point", "fork-point", "fork-point", "fork-point", "fork-point", "below-fork-point", "below-fork-point", "below-fork-point", "local-segment"}[rng.Intn(10)]
	contig := mode != "fork-point" || rng.Intn(3) != 0
	var a []NodeSpec
	parent := "z"
	tq := map[string]uint64{"g": 0, "z": 1}
	for i := 1; i <= la; i++ {
		n := NodeSpec{Name: fmt.Sprintf("a%d", i), Parent: parent, QN: uint64(1 + rng.Intn(4)), PV: int64(100 + rng.Intn(3)*50), NTx: rng.Intn(3)}
		if !contig {
			n.Gap = uint64(rng.Intn(3) / 2)
		}
		a = append(a, n)
		tq[n.Name] = tq[parent] + n.QN
		parent = n.Name
	}
	sc.Nodes = append(sc.Nodes, a...)
	maxd := la
	if maxd > 4 {
		maxd = 4
	}
	depth := 1 + rng.Intn(maxd)
	f := la - depth // fork after a_f (0: after z)
	if mode == "below-fork-point" && f == 0 {
		f = 1
		depth = la - 1
	}
	fp := "z"
	if f > 0 {
		fp = a[f-1].Name
	}
	headQN := tq[a[la-1].Name]
	need := int64(headQN) - int64(tq[fp])
	lb := 1 + rng.Intn(4)
	class := []string{"lower", "tie-pv-lower", "tie-pv-higher", "tie-pv-equal", "higher", "higher"}[rng.Intn(6)]
	var total int64
	switch class {
	case "lower":
		total = need - 1
		if total < 1 {
			class = "higher"
		}
	case "tie-pv-lower", "tie-pv-higher", "tie-pv-equal":
		total = need
	}
	if class == "higher" {
		total = need + 1 + int64(rng.Intn(2))
		if int64(lb) > total {
			total = int64(lb)
		}
	} else if int64(lb) > total {
		lb = int(total)
	}
	qns := make([]uint64, lb)
	for i := range qns {
		qns[i] = 1
	}
	for rem := total - int64(lb); rem > 0; rem-- {
		qns[rng.Intn(lb)]++
	}
	siblingPV := a[f].PV
	pv1 := siblingPV + int64(rng.Intn(3)-1)*10
	switch class {
	case "tie-pv-lower":
		pv1 = siblingPV - 10
	case "tie-pv-higher":
		pv1 = siblingPV + 10
	case "tie-pv-equal":
		pv1 = siblingPV
	}
	corrupt, corruptAt := "", 0
	if mode != "local-segment" && rng.Intn(10) < 3 {
		corrupt = []string{"state-root", "tx-root", "pre-hash", "hash", "request-id", "height-gap"}[rng.Intn(6)]
		if lb >= 3 {
			corruptAt = 1 + rng.Intn(lb-2)
		} else {
			corruptAt = rng.Intn(lb)
		}
		if corrupt == "request-id" {
			corruptAt = lb - 1 // blocks after a re-hashed block no longer link to it
		}
	}
	var bnames []string
	bp := fp
	for i := 1; i <= lb; i++ {
		n := NodeSpec{Name: fmt.Sprintf("b%d", i), Parent: bp, QN: qns[i-1], PV: int64(100 + rng.Intn(3)*50), NTx: rng.Intn(3)}
		if i == 1 {
			n.PV = pv1
		}
		if corrupt == "height-gap" && i-1 == corruptAt {
			n.Gap = 1
		}
		sc.Nodes = append(sc.Nodes, n)
		bnames = append(bnames, n.Name)
		bp = n.Name
	}
	real := append([]NodeSpec{}, sc.Nodes...)
	names := []string{"g"}
	for _, n := range real {
		names = append(names, n.Name)
	}
	for _, nm := range names {
		sc.Nodes = append(sc.Nodes, NodeSpec{Name: "p_" + nm, Parent: nm, QN: 1, PV: 77, NTx: 1, Probe: true})
	}
	sc.Delivery = []string{"z"}
	for _, n := range a {
		sc.Delivery = append(sc.Delivery, n.Name)
	}
	fs := &FSSpec{Class: class, ArmSwitch: -1}
	main := FSSwitch{Ancestor: fp, Branch: bnames, Corrupt: corrupt, CorruptAt: corruptAt, Mode: "fork-point"}
	switch mode {
	case "below-fork-point":
		// the ancestor handed to the fork is 1-2 blocks below the real fork point: the first branch
		// blocks are blocks of the local chain (a peer's chain piece is matched against the local chain
		// when it arrives; the local chain may have moved on by the time the blocks are put on chain)
		d := 1 + rng.Intn(2)
		if d > f {
			d = f
		}
		anc := "z"
		if f-d > 0 {
			anc = a[f-d-1].Name
		}
		var pre []string
		for k := f - d; k < f; k++ {
			pre = append(pre, a[k].Name)
		}
		main = FSSwitch{Ancestor: anc, Branch: append(pre, bnames...), Corrupt: corrupt, CorruptAt: corruptAt + d, Mode: "below-fork-point"}
		fs.Switches = append(fs.Switches, main)
	case "local-segment":
		// a branch the node already has: a segment of its own chain (prefix or up to the head)
		k := rng.Intn(la)
		j := k + 1 + rng.Intn(la-k)
		anc := "z"
		if k > 0 {
			anc = a[k-1].Name
		}
		var seg []string
		for x := k; x < j; x++ {
			seg = append(seg, a[x].Name)
		}
		fs.Switches = append(fs.Switches, FSSwitch{Ancestor: anc, Branch: seg, Mode: "local-segment"}, main)
	default:
		fs.Switches = append(fs.Switches, main)
	}
	if corrupt == "" && rng.Intn(3) == 0 {
		rep := main
		rep.Mode = "repeat"
		fs.Switches = append(fs.Switches, rep)
	}
	if corrupt != "" && corrupt != "height-gap" && rng.Intn(2) == 0 {
		// after the corrupted delivery the same branch arrives intact (from the true fork point)
		fs.Switches = append(fs.Switches, FSSwitch{Ancestor: fp, Branch: bnames, Mode: "retry-valid"})
	}
	sc.FS = fs
	sc.Shape = fmt.Sprintf("forkswitch A=%d contiguous=%v fork@%d depth=%d B=%d class=%s mode=%s corrupt=%s@%d switches=%d", la, contig, f, depth, lb, class, mode, corrupt, corruptAt, len(fs.Switches))
	return sc
}

// ---------------------------------------------------------------------------
// node side

func corruptBlock(blk *types.Block, kind string) {
	h := blk.Header
	switch kind {
	case "state-root":
		h.StateTree[0] ^= 1
		h.Hash = h.GenHash()
	case "tx-root":
		h.TxTree[0] ^= 1
		h.Hash = h.GenHash()
	case "pre-hash":
		h.PreHash[0] ^= 1
		h.Hash = h.GenHash()
	case "hash":
		h.Hash[0] ^= 1
	case "request-id":
		m := map[string]uint64{}
		for k, v := range h.RequestIds {
			m[k] = v
		}
		m["fixed"] += 1000
		h.RequestIds = m
		h.Hash = h.GenHash()
	}
}

// materialise decodes the blocks of a switch as a peer would send them.
func materialise(t *tree, sw FSSwitch) (*types.Block, []*types.Block) {
	anc := decodeChainBlock(t, sw.Ancestor)
	var br []*types.Block
	for i, n := range sw.Branch {
		blk := decodeBlock(t.byName[n])
		if sw.Corrupt != "" && sw.Corrupt != "height-gap" && i == sw.CorruptAt {
			corruptBlock(blk, sw.Corrupt)
		}
		br = append(br, blk)
	}
	return anc, br
}

// decodeChainBlock: the ancestor is read from the local chain (as syncProcessor does).
func decodeChainBlock(t *tree, name string) *types.Block {
	b := t.byName[name]
	if blk := core.GetBlockChain().QueryBlockByHash(common.HexToHash(b.Hash)); blk != nil {
		return blk
	}
	if b.Bytes == "" {
		return nil
	}
	return decodeBlock(b)
}

type fsJudgement struct {
	outcome string
	removed int
}

// judgeSwitch applies the head rule of the property to one (no-crash) fork switch.
func judgeSwitch(r *mon.Run, w *walker, t *tree, sw FSSwitch, idx int, before, after string, ferr error, where string) fsJudgement {
	old, nw := t.byHash[before], t.byHash[after]
	suffix := ""
	if sw.Mode == "below-fork-point" {
		suffix += ":ancestor-below-fork-point"
	}
	if sw.Corrupt != "" {
		suffix += ":invalid-branch-" + sw.Corrupt
	}
	if old == nil {
		return fsJudgement{outcome: "unjudged"}
	}
	if after == before {
		return fsJudgement{outcome: "unchanged"}
	}
	if ferr != nil {
		w.fail("C05:fork-switch:head-changed-after-failed-verification"+suffix, fmt.Sprintf("%s switch #%d: the fork verification stopped (%v) but the head moved from %s to %s", where, idx, ferr, old.Name, after))
	}
	if nw == nil {
		w.fail("C05:fork-switch:head-unknown-block"+suffix, fmt.Sprintf("%s switch #%d: head %s is not a valid block of the delivered tree (old head %s)", where, idx, after, old.Name))
		return fsJudgement{outcome: "unknown-head"}
	}
	f := t.lca(old, nw)
	removed := len(t.path(old)) - len(t.path(f))
	// the legitimate part of the branch: up to the block in front of a corrupted one
	legit := sw.Branch
	if sw.Corrupt != "" && sw.Corrupt != "height-gap" {
		legit = sw.Branch[:sw.CorruptAt]
	}
	pos := -1
	for i, n := range legit {
		if n == nw.Name {
			pos = i
		}
	}
	if ok, why := t.notLower(old, nw); !ok {
		if f.Name == nw.Name {
			why = "moved-to-ancestor"
		}
		// one signature per root cause: a known input class names the signature
		sig := "C05:fork-switch:head-moved-to-lower-weight:" + why
		switch {
		case sw.Corrupt != "":
			// a branch with a refused block: the local branch is cut before the adds (whatever the ancestor mode)
			sig = "C05:fork-switch:head-moved-to-lower-weight:invalid-branch-" + sw.Corrupt
		case sw.Mode == "below-fork-point":
			sig += ":ancestor-below-fork-point"
		}
		w.fail(sig, fmt.Sprintf("%s switch #%d (%s, ancestor %s, branch %v, corrupt %q@%d): head moved from %s (totalQN %d) to %s (totalQN %d) without a crash, decided by %s", where, idx, sw.Mode, sw.Ancestor, sw.Branch, sw.Corrupt, sw.CorruptAt, old.Name, old.TotalQN, nw.Name, nw.TotalQN, why))
		return fsJudgement{outcome: "lower-weight", removed: removed}
	}
	switch {
	case pos == len(sw.Branch)-1:
		return fsJudgement{outcome: "adopted", removed: removed}
	case pos >= 0:
		return fsJudgement{outcome: "partial", removed: removed}
	}
	w.fail("C05:fork-switch:head-off-branch"+suffix, fmt.Sprintf("%s switch #%d: head moved from %s to %s which is neither the old head nor a block of the delivered branch %v", where, idx, old.Name, nw.Name, sw.Branch))
	return fsJudgement{outcome: "off-branch", removed: removed}
}

func childFSRun(r *mon.Run, scPath string) {
	sc := loadScenario(scPath)
	fs := sc.FS
	t := newTree(sc.Built)
	env.BootCore(env.Forks{}, nil)
	chain := core.GetBlockChain()
	w := &walker{r: r, sc: sc, t: t}
	for _, b := range sc.Built {
		if b.Height > w.maxH {
			w.maxH = b.Height
		}
	}
	var log []string
	w.witness = func(at string) interface{} {
		return map[string]interface{}{"scenario": scenarioWitness(sc), "delivered": append([]string{}, log...), "at": at}
	}
	armed, die := false, false
	writes := 0
	var heads []string
	db.VerifWriteHook = func(kind string, key []byte) {
		if !armed {
			return
		}
		writes++
		if tb := core.GetBlockChain().TopBlock(); tb != nil {
			h := tb.Hash.Hex()
			if len(heads) == 0 || heads[len(heads)-1] != h {
				heads = append(heads, h)
			}
		}
		if die && writes == fs.ArmN {
			d, _ := json.Marshal(map[string]interface{}{"switch": fs.ArmSwitch, "n": fs.ArmN, "kind": kind, "key": hex.EncodeToString(key)})
			ioutil.WriteFile("verif-died.json", d, 0644)
			os.Exit(77)
		}
	}
	ever := map[string]bool{t.byName["g"].Hash: true}
	for _, name := range sc.Delivery {
		res := chain.AddBlockOnChain(decodeBlock(t.byName[name]))
		log = append(log, name)
		r.Count("fs_local_chain_deliveries", 1)
		if res != types.AddBlockSucc {
			fmt.Println("MACHINERY: local chain block", name, "not accepted:", res)
			os.Exit(3)
		}
	}
	for _, h := range w.check("after the local chain", true, ever) {
		ever[h] = true
	}
	out := FSRunResult{}
	for i, sw := range fs.Switches {
		before := chain.TopBlock().Hash.Hex()
		if i == fs.ArmSwitch {
			pb, _ := json.Marshal(progress{Delivered: log, OldHead: before, Ever: ever})
			ioutil.WriteFile("verif-progress.json", pb, 0644)
		}
		anc, branch := materialise(t, sw)
		if anc == nil {
			fmt.Println("MACHINERY: ancestor", sw.Ancestor, "not available")
			os.Exit(3)
		}
		r.CaseBegin([]byte(fmt.Sprintf("fork-switch scenario %d switch %d", sc.ID, i)))
		writes, heads = 0, nil
		armed = fs.ArmSwitch < 0 || i == fs.ArmSwitch
		die = i == fs.ArmSwitch
		var ferr error
		var ok bool
		panicked := r.Guard("C05:fork-switch", w.witness(fmt.Sprintf("switch #%d", i)), func() { ferr, ok = core.VerifBlockForkSwitch(anc, branch) })
		armed, die = false, false
		log = append(log, fmt.Sprintf("switch#%d", i))
		after := chain.TopBlock().Hash.Hex()
		r.Count("fs_switches", 1)
		r.Count("fs_mode_"+sw.Mode, 1)
		r.Count(fmt.Sprintf("fs_branch_len_%d", len(sw.Branch)), 1)
		if panicked {
			r.Count("fs_panics", 1)
		}
		res := FSResult{Mode: sw.Mode, Corrupt: sw.Corrupt, OnChain: ok, Before: before, After: after, Writes: writes, Heads: append([]string{}, heads...), Branch: len(sw.Branch)}
		for _, n := range sw.Branch {
			res.NTx += len(t.byName[n].Txs)
		}
		if ferr != nil {
			res.Err = ferr.Error()
			r.Count("fs_fork_stopped", 1)
			if sw.Corrupt != "" {
				r.Count("fs_fork_stopped_by_"+sw.Corrupt, 1)
			} else {
				r.Count("fs_fork_stopped_on_intact_branch", 1)
				r.Note("fork verification stopped on an intact branch: scenario %d (%s) switch %d: %v", sc.ID, sc.Shape, i, ferr)
			}
		} else {
			r.Count("fs_fork_verified", 1)
			r.Count(fmt.Sprintf("fs_on_chain_result_%v", ok), 1)
			if sw.Corrupt != "" {
				r.Count("fs_corrupt_branch_passed_fork_verification_"+sw.Corrupt, 1)
			}
		}
		when := fmt.Sprintf("after fork switch #%d (%s, ancestor %s, branch %v, corrupt %q, fork error %v, on-chain %v)", i, sw.Mode, sw.Ancestor, sw.Branch, sw.Corrupt, ferr, ok)
		for _, h := range w.check(when, true, ever) {
			ever[h] = true
		}
		j := judgeSwitch(r, w, t, sw, i, before, after, ferr, "no-crash")
		res.Outcome, res.Removed = j.outcome, j.removed
		r.Count("fs_outcome_"+j.outcome, 1)
		if j.outcome == "adopted" || j.outcome == "partial" || j.outcome == "lower-weight" {
			r.Count(fmt.Sprintf("fs_removed_depth_%d", j.removed), 1)
			r.Max("max_fs_removed_depth", int64(j.removed))
			if j.removed > 0 && len(sw.Branch) < j.removed && j.outcome == "adopted" {
				r.Count("fs_adopted_shorter_but_heavier", 1)
			}
			if res.NTx > 0 {
				r.Count("fs_head_moved_with_transactions", 1)
			}
		}
		if j.outcome == "unchanged" && ferr == nil && sw.Corrupt == "" {
			tip := t.byName[sw.Branch[len(sw.Branch)-1]]
			old := t.byHash[before]
			if old != nil && tip != nil && !ever[tip.Hash] {
				if nl, why := t.notLower(old, tip); nl {
					r.Count("fs_info_not_lower_branch_not_adopted_"+why, 1)
				} else {
					r.Count("fs_lower_branch_refused_"+why, 1)
				}
			} else if tip != nil && ever[tip.Hash] {
				r.Count("fs_branch_already_on_chain", 1)
			}
		}
		out.Switches = append(out.Switches, res)
	}
	if fs.ArmSwitch < 0 {
		deliverProbe(r, w, t, ever, &log, true)
	}
	ob, _ := json.Marshal(out)
	ioutil.WriteFile("verif-fsresult.json", ob, 0644)
	r.Finish(mon.Coverage{Evaluations: int64(len(fs.Switches))})
}

// childFSRestart boots from the directory a fork switch died in.
func childFSRestart(r *mon.Run, scPath string) {
	sc := loadScenario(scPath)
	fs := sc.FS
	t := newTree(sc.Built)
	var pg progress
	if b, err := ioutil.ReadFile("verif-progress.json"); err == nil {
		json.Unmarshal(b, &pg)
	}
	died, _ := ioutil.ReadFile("verif-died.json")
	env.BootCore(env.Forks{}, nil)
	chain := core.GetBlockChain()
	w := &walker{r: r, sc: sc, t: t}
	for _, b := range sc.Built {
		if b.Height > w.maxH {
			w.maxH = b.Height
		}
	}
	log := append([]string{}, pg.Delivered...)
	w.witness = func(at string) interface{} {
		return map[string]interface{}{"scenario": scenarioWitness(sc), "delivered_before_crash": pg.Delivered, "crashed_in": fmt.Sprintf("switch#%d", fs.ArmSwitch),
			"crash_write": json.RawMessage(died), "after_restart": log[len(pg.Delivered):], "at": at}
	}
	r.Count("fs_restarts", 1)
	ever := pg.Ever
	if ever == nil {
		ever = map[string]bool{}
	}
	w.check("after restart (crash inside a fork switch)", false, ever)
	sw := fs.Switches[fs.ArmSwitch]
	head := t.byHash[chain.TopBlock().Hash.Hex()]
	old := t.byHash[pg.OldHead]
	nw := t.byHash[fs.ExpectAfter]
	if head == nil || old == nil || nw == nil {
		w.fail("C05:fork-switch:crash:head-unknown-block", fmt.Sprintf("head after restart %s is not a block of the tree", chain.TopBlock().Hash.Hex()))
	} else {
		allowed := map[string]bool{}
		f := t.lca(old, nw)
		for _, p := range [][]*Built{t.path(old), t.path(nw)} {
			for _, x := range p {
				allowed[x.Name] = true
				if x.Name == f.Name {
					break
				}
			}
		}
		for _, h := range fs.Transit {
			if x := t.byHash[h]; x != nil {
				allowed[x.Name] = true
			}
		}
		switch {
		case head.Name == old.Name:
			r.Count("fs_crash_head_old", 1)
		case head.Name == nw.Name:
			r.Count("fs_crash_head_new", 1)
		case head.Name == f.Name:
			r.Count("fs_crash_head_common_ancestor", 1)
		case allowed[head.Name]:
			r.Count("fs_crash_head_on_path_between", 1)
		default:
			w.fail("C05:fork-switch:crash:head-off-path", fmt.Sprintf("after a crash in fork switch #%d (old head %s, expected new head %s) the head is %s", fs.ArmSwitch, old.Name, nw.Name, head.Name))
		}
	}
	// synchronise again as the sync processor would: common ancestor = highest block of the piece
	// (ancestor + branch) that is on the local canonical chain, branch = what follows
	anc, branch := materialise(t, sw)
	if anc == nil {
		anc = decodeBlock(t.byName[sw.Ancestor])
	}
	piece := append([]*types.Block{anc}, branch...)
	ca := -1
	for i, b := range piece {
		if chain.GetBlockHash(b.Header.Height) != b.Header.Hash {
			break
		}
		ca = i
	}
	before := chain.TopBlock().Hash.Hex()
	switch {
	case ca < 0:
		r.Count("fs_resync_ancestor_not_on_chain", 1)
	case ca == len(piece)-1:
		r.Count("fs_resync_nothing_to_do", 1)
	default:
		var ferr error
		var ok bool
		r.Guard("C05:fork-switch:restart", w.witness("resync"), func() { ferr, ok = core.VerifBlockForkSwitch(piece[ca], piece[ca+1:]) })
		log = append(log, fmt.Sprintf("resync-from-%d", ca))
		r.Count("fs_resyncs", 1)
		after := chain.TopBlock().Hash.Hex()
		for _, h := range w.check(fmt.Sprintf("after the re-synchronisation from piece index %d (fork error %v, on-chain %v)", ca, ferr, ok), false, ever) {
			ever[h] = true
		}
		rs := sw
		rs.Ancestor = piece0Name(t, piece[ca])
		rs.Branch = sw.Branch[ca:]
		rs.CorruptAt = sw.CorruptAt - ca
		judgeSwitch(r, w, t, rs, fs.ArmSwitch, before, after, ferr, "after-restart")
		if after == fs.ExpectAfter {
			r.Count("fs_resync_adopted", 1)
		} else if sw.Corrupt == "" {
			w.fail("C05:fork-switch:restart:valid-branch-not-adopted", fmt.Sprintf("the branch %v was adopted without a crash; after a crash at write %d of the switch and a restart (head %s) the same branch synchronised again from %s leaves the head at %s (fork error %v, on-chain %v)", sw.Branch, fs.ArmN, nameOf(t, before), rs.Ancestor, nameOf(t, after), ferr, ok))
		}
	}
	deliverProbe(r, w, t, ever, &log, false)
	r.Finish(mon.Coverage{Evaluations: 1})
}

func piece0Name(t *tree, b *types.Block) string { return nameOf(t, b.Header.Hash.Hex()) }

func nameOf(t *tree, hash string) string {
	if b := t.byHash[hash]; b != nil {
		return b.Name
	}
	return hash
}

// ---------------------------------------------------------------------------
// parent side

type fsJob struct {
	sc  *Scenario
	res *FSRunResult
}

func fsBuild(r *mon.Run, wd, gdir string, sc *Scenario, tag string) (string, bool) {
	bdir := filepath.Join(wd, fmt.Sprintf("fsb-%s-%d", tag, sc.ID))
	env.CopyDir(gdir, bdir)
	spec := filepath.Join(wd, fmt.Sprintf("fsspec-%s-%d.json", tag, sc.ID))
	out := filepath.Join(wd, fmt.Sprintf("fsbuilt-%s-%d.json", tag, sc.ID))
	sc.Built = nil
	writeJSON(spec, sc)
	res := r.RunChild(mon.ChildSpec{Label: "fs-build", Dir: bdir, Args: []string{"build", spec, out}, Timeout: 3 * time.Minute})
	os.RemoveAll(bdir)
	if !r.Absorb(res, "C05:builder") {
		return spec, false
	}
	bb, err := ioutil.ReadFile(out)
	if err != nil {
		r.Inconclusive("builder for fork-switch scenario %d produced nothing: %s", sc.ID, res.LogTail)
		return spec, false
	}
	json.Unmarshal(bb, &sc.Built)
	for n, b := range sc.Built {
		b.Name = n
	}
	os.Remove(out)
	writeJSON(spec, sc)
	return spec, true
}

func fsCrashPoint(r *mon.Run, wd, gdir string, sc *Scenario, tag string) {
	spec := filepath.Join(wd, fmt.Sprintf("fscrash-%s.json", tag))
	writeJSON(spec, sc)
	dir := filepath.Join(wd, "fsc-"+tag)
	env.CopyDir(gdir, dir)
	res := r.RunChild(mon.ChildSpec{Label: "fs-crash-run", Dir: dir, Args: []string{"fsrun", spec}, Timeout: 3 * time.Minute})
	if res.Exit == 77 {
		r.Count("fs_crash_points", 1)
		r.Distinct("fs_crash_points", []byte(tag))
		r.Absorb(res, "C05:fork-switch:node", 77)
		res2 := r.RunChild(mon.ChildSpec{Label: "fs-restart", Dir: dir, Args: []string{"fsrestart", spec}, Timeout: 3 * time.Minute})
		if !r.Absorb(res2, "C05:fork-switch:restart") && !res2.TimedOut {
			r.Note("restart after fork-switch crash point %s died: %s", tag, mon.FatalSite(res2.LogTail))
		}
	} else {
		r.Count("fs_crash_runs_not_reaching_write", 1)
		r.Absorb(res, "C05:fork-switch:node")
	}
	os.RemoveAll(dir)
	os.Remove(spec)
}

func runForkSwitchPhase(r *mon.Run, wd, gdir string, replay *Scenario) {
	if replay != nil {
		sc := replay
		if _, ok := fsBuild(r, wd, gdir, sc, "replay"); !ok {
			return
		}
		if sc.FS.ArmSwitch >= 0 {
			fsCrashPoint(r, wd, gdir, sc, fmt.Sprintf("replay-%d-%d-%d", sc.ID, sc.FS.ArmSwitch, sc.FS.ArmN))
			return
		}
		fsRunOne(r, wd, gdir, sc, "replay")
		return
	}
	nsc := r.Pick(56, 800)
	crashBudget := r.Pick(120, 1500)
	jobs := make([]*fsJob, nsc)
	mon.Parallel(nsc, 16, func(i int) {
		sc := genFS(r.Rand("c05-forkswitch", i), 100000+i)
		if _, ok := fsBuild(r, wd, gdir, sc, "run"); !ok {
			return
		}
		if rr := fsRunOne(r, wd, gdir, sc, "run"); rr != nil {
			jobs[i] = &fsJob{sc: sc, res: rr}
			if i < 3 {
				r.Sample(map[string]interface{}{"scenario": sc.Shape, "switches": sc.FS.Switches, "results": rr.Switches})
			}
		}
	})
	// crash candidates: adopted switches of an intact branch that removed 2-3 blocks and put 2-3 on
	// chain; those with transactions first; every physical write of the chosen switch is a crash point
	type cand struct {
		j *fsJob
		s int
		w int
		k int
	}
	var cands []cand
	for _, j := range jobs {
		if j == nil {
			continue
		}
		for s, sr := range j.res.Switches {
			if sr.Outcome != "adopted" || sr.Corrupt != "" || sr.Writes == 0 || sr.Removed < 2 || sr.Removed > 3 {
				continue
			}
			added := sr.Branch
			if sr.Mode == "below-fork-point" {
				continue // handled by the no-crash oracle; the crash cases use the plain shape
			}
			if added < 2 || added > 3 {
				continue
			}
			k := 0
			if sr.NTx > 0 {
				k = 1
			}
			cands = append(cands, cand{j: j, s: s, w: sr.Writes, k: k})
		}
	}
	sort.SliceStable(cands, func(a, b int) bool {
		if cands[a].k != cands[b].k {
			return cands[a].k > cands[b].k
		}
		return cands[a].w > cands[b].w
	})
	type cp struct {
		c cand
		n int
	}
	var cps []cp
	used := 0
	for _, c := range cands {
		if used >= crashBudget || (used > 0 && used+c.w > crashBudget+60) {
			break
		}
		used += c.w
		for n := 1; n <= c.w; n++ {
			cps = append(cps, cp{c, n})
		}
		r.Count("fs_crash_enumerated_switches", 1)
		r.Count(fmt.Sprintf("fs_crash_enumerated_switches_removed_%d", c.j.res.Switches[c.s].Removed), 1)
	}
	mon.Parallel(len(cps), 16, func(i int) {
		c := cps[i]
		sc := *c.c.j.sc
		fs := *sc.FS
		fs.Switches = append([]FSSwitch{}, sc.FS.Switches[:c.c.s+1]...)
		fs.ArmSwitch, fs.ArmN = c.c.s, c.n
		fs.ExpectAfter = c.c.j.res.Switches[c.c.s].After
		fs.Transit = c.c.j.res.Switches[c.c.s].Heads
		sc.FS = &fs
		fsCrashPoint(r, wd, gdir, &sc, fmt.Sprintf("%d-%d-%d", sc.ID, c.c.s, c.n))
	})
}

func fsRunOne(r *mon.Run, wd, gdir string, sc *Scenario, tag string) *FSRunResult {
	spec := filepath.Join(wd, fmt.Sprintf("fsspec-%s-%d.json", tag, sc.ID))
	writeJSON(spec, sc)
	ndir := filepath.Join(wd, fmt.Sprintf("fsn-%s-%d", tag, sc.ID))
	env.CopyDir(gdir, ndir)
	res := r.RunChild(mon.ChildSpec{Label: "fs-run", Dir: ndir, Args: []string{"fsrun", spec}, Timeout: 3 * time.Minute})
	ok := r.Absorb(res, "C05:fork-switch:node")
	var rr FSRunResult
	if b, err := ioutil.ReadFile(filepath.Join(ndir, "verif-fsresult.json")); err == nil {
		json.Unmarshal(b, &rr)
	}
	os.RemoveAll(ndir)
	os.Remove(spec)
	if !ok {
		return nil
	}
	r.Count("fs_scenarios", 1)
	moved := false
	for _, s := range rr.Switches {
		if s.Before != s.After {
			moved = true
		}
	}
	if moved {
		r.Distinct("fs_nontrivial_scenarios", []byte(sc.Shape), []byte(fmt.Sprint(sc.Nodes)), []byte(fmt.Sprint(sc.FS.Switches)))
	}
	return &rr
}
