// C05 — the block store holds one hash-linked canonical chain across reorgs and crashes.
//
// Block trees are manufactured by a *builder* process (core.VerifBuildBlock, the CastBlock
// mirror, on arbitrary parents) and shipped as bytes to a separate *node under test* that
// receives them through AddBlockOnChain in generated orders. After every delivery (quiescent
// point) an invariant walker checks every clause of the property through the exported chain
// API; the head transition is judged against the weight rule using the harness's reference
// tree. Crash points: the H2 write hook ends the node process before the N-th physical store
// write of a chosen delivery (N enumerated over all writes of that delivery); a fresh process
// then boots from the same directory and the walker runs again.
package main

import (
	"encoding/hex"
	"encoding/json"
	"fmt"
	"io/ioutil"
	"math/big"
	"math/rand"
	"os"
	"path/filepath"
	"sort"
	"strings"
	"time"

	"com.tuntun.rangers/node/src/common"
	"com.tuntun.rangers/node/src/core"
	"com.tuntun.rangers/node/src/middleware"
	"com.tuntun.rangers/node/src/middleware/db"
	"com.tuntun.rangers/node/src/middleware/types"
	"com.tuntun.rangers/node/src/service"

	"verifharness/env"
	"verifharness/mon"
)

type NodeSpec struct {
	Name   string `json:"name"`
	Parent string `json:"parent"` // "g" = genesis
	QN     uint64 `json:"qn"`
	PV     int64  `json:"pv"`
	NTx    int    `json:"ntx"`
	Gap    uint64 `json:"gap"` // height = parent height + 1 + gap
	Probe  bool   `json:"probe,omitempty"`
}

type Built struct {
	NodeSpec
	Hash    string   `json:"hash"`
	PreHash string   `json:"prehash"`
	Height  uint64   `json:"height"`
	TotalQN uint64   `json:"total_qn"`
	Txs     []string `json:"txs"`
	Bytes   string   `json:"bytes"`
}

type Scenario struct {
	ID       int               `json:"id"`
	Shape    string            `json:"shape"`
	Nodes    []NodeSpec        `json:"nodes"`
	Delivery []string          `json:"delivery"`
	Built    map[string]*Built `json:"built,omitempty"` // by name (incl. "g")
	ArmAt    int               `json:"arm_at"`          // delivery index to crash in (-1: none)
	ArmN     int               `json:"arm_n"`           // die before the N-th write of that delivery
	Expect   []string          `json:"expect_heads,omitempty"`
	Transit  []string          `json:"transit_heads,omitempty"` // heads the armed delivery passed through in the unarmed run
	FS       *FSSpec           `json:"fs,omitempty"`            // fork-switch phase (forkswitch.go)
}

type DeliveryResult struct {
	Name   string `json:"name"`
	Result int    `json:"result"`
	Before string `json:"head_before"`
	After  string `json:"head_after"`
	Writes int    `json:"writes"`
	// Heads are the distinct heads observed at the write hook while the delivery ran (a delivery may
	// cascade through stored future blocks and even reorganise inside one call)
	Heads []string `json:"heads,omitempty"`
}

type RunResult struct {
	Deliveries []DeliveryResult `json:"deliveries"`
}

// ---------------------------------------------------------------------------
// reference tree helpers (harness side)

type tree struct {
	byName map[string]*Built
	byHash map[string]*Built
}

func newTree(b map[string]*Built) *tree {
	t := &tree{byName: b, byHash: map[string]*Built{}}
	for _, x := range b {
		t.byHash[x.Hash] = x
	}
	return t
}

func (t *tree) parent(x *Built) *Built {
	if x.Name == "g" {
		return nil
	}
	return t.byName[x.Parent]
}

// path returns x, parent(x), ..., genesis.
func (t *tree) path(x *Built) []*Built {
	var p []*Built
	for x != nil {
		p = append(p, x)
		x = t.parent(x)
	}
	return p
}

func (t *tree) lca(a, b *Built) *Built {
	on := map[string]bool{}
	for _, x := range t.path(a) {
		on[x.Name] = true
	}
	for _, x := range t.path(b) {
		if on[x.Name] {
			return x
		}
	}
	return nil
}

// childToward returns the child of anc on the path to x (nil if x == anc).
func (t *tree) childToward(anc, x *Built) *Built {
	var prev *Built
	for _, y := range t.path(x) {
		if y.Name == anc.Name {
			return prev
		}
		prev = y
	}
	return nil
}

// notLower implements the documented weight rule for a head move old -> new.
func (t *tree) notLower(old, nw *Built) (bool, string) {
	if old.Name == nw.Name {
		return true, "unchanged"
	}
	f := t.lca(old, nw)
	if f.Name == old.Name {
		return true, "extension"
	}
	if nw.TotalQN != old.TotalQN {
		return nw.TotalQN > old.TotalQN, "qn"
	}
	of, nf := t.childToward(f, old), t.childToward(f, nw)
	if nf == nil { // new head is an ancestor of the old head: a move backwards without crash
		return false, "moved-to-ancestor"
	}
	if of.PV != nf.PV {
		return nf.PV > of.PV, "pv"
	}
	oh, _ := new(big.Int).SetString(of.Hash[2:], 16)
	nh, _ := new(big.Int).SetString(nf.Hash[2:], 16)
	return nh.Cmp(oh) >= 0, "hash"
}

// ---------------------------------------------------------------------------
// walker (node side): every clause of the property through the exported API

type walker struct {
	r       *mon.Run
	sc      *Scenario
	t       *tree
	maxH    uint64
	witness func(at string) interface{}
}

// poolOnly: the driver runs on behalf of C17 (real-chain part of the pool property): only the
// pool clauses are judged, under C17 signatures; the chain-structure clauses stay C05's business.
var poolOnly = os.Getenv("VERIF_POOL_ONLY") != ""

func propID() string {
	if poolOnly {
		return "C17"
	}
	return "C05"
}

func (w *walker) fail(sig, what string) {
	if poolOnly {
		if !strings.HasPrefix(sig, "C05:pool:") {
			w.r.Count("info_non_pool_clause_failed", 1)
			return
		}
		sig = "C17:chain:" + strings.TrimPrefix(sig, "C05:pool:")
	}
	w.r.Violation(sig, what, w.witness(what))
}

// check returns the canonical chain (hashes, genesis first).
func (w *walker) check(when string, checkPending bool, everCanonical map[string]bool) []string {
	chain := core.GetBlockChain()
	w.r.Count("invariant_evaluations", 1)
	head := chain.TopBlock()
	if head == nil {
		w.fail("C05:head:nil", when+": TopBlock() is nil")
		return nil
	}
	// 1. reachability from genesis through parent links, hash index contains every block
	var canon []*types.BlockHeader
	cur := head
	for steps := 0; ; steps++ {
		blk := chain.QueryBlockByHash(cur.Hash)
		if blk == nil || blk.Header == nil {
			w.fail("C05:hash-index:canonical-block-missing", fmt.Sprintf("%s: block %s (height %d) on the head's parent path is not in the hash index", when, cur.Hash.Hex(), cur.Height))
			return nil
		}
		if blk.Header.Hash != cur.Hash || blk.Header.GenHash() != cur.Hash {
			w.fail("C05:hash-index:wrong-block-under-hash", fmt.Sprintf("%s: hash index returns a block whose hash differs from its key %s", when, cur.Hash.Hex()))
		}
		if !chain.HasBlockByHash(cur.Hash) {
			w.fail("C05:hash-index:has-disagrees", fmt.Sprintf("%s: HasBlockByHash false for stored block %s", when, cur.Hash.Hex()))
		}
		canon = append(canon, blk.Header)
		if blk.Header.Height == 0 {
			break
		}
		pre := chain.QueryBlockByHash(blk.Header.PreHash)
		if pre == nil {
			w.fail("C05:links:parent-missing", fmt.Sprintf("%s: parent %s of canonical block at height %d is not stored", when, blk.Header.PreHash.Hex(), blk.Header.Height))
			return nil
		}
		if pre.Header.Height >= blk.Header.Height || steps > 10000 {
			w.fail("C05:links:height-not-decreasing", fmt.Sprintf("%s: parent height %d >= child height %d", when, pre.Header.Height, blk.Header.Height))
			return nil
		}
		cur = pre.Header
	}
	if g := w.t.byName["g"]; canon[len(canon)-1].Hash.Hex() != g.Hash {
		w.fail("C05:links:not-rooted-at-genesis", fmt.Sprintf("%s: parent path ends at %s, genesis is %s", when, canon[len(canon)-1].Hash.Hex(), g.Hash))
	}
	// 2. height index: exactly the canonical chain, nothing else up to maxH+2
	onHeight := map[uint64]*types.BlockHeader{}
	for _, h := range canon {
		onHeight[h.Height] = h
	}
	for h := uint64(0); h <= w.maxH+2; h++ {
		got := chain.QueryBlockHeaderByHeight(h, false)
		gotCached := chain.GetBlockHash(h)
		want := onHeight[h]
		w.r.Count("height_lookups", 1)
		switch {
		case want == nil && got != nil && h > head.Height:
			w.fail("C05:height-index:entry-above-head", fmt.Sprintf("%s: height %d indexed (%s) above head height %d", when, h, got.Hash.Hex(), head.Height))
		case want == nil && got != nil:
			w.fail("C05:height-index:stale-entry", fmt.Sprintf("%s: height %d indexed with %s which is not on the canonical chain", when, h, got.Hash.Hex()))
		case want != nil && got == nil:
			w.fail("C05:height-index:canonical-height-missing", fmt.Sprintf("%s: height %d of canonical block %s not indexed", when, h, want.Hash.Hex()))
		case want != nil && got.Hash != want.Hash:
			w.fail("C05:height-index:wrong-block", fmt.Sprintf("%s: height %d indexed with %s, canonical is %s", when, h, got.Hash.Hex(), want.Hash.Hex()))
		}
		var wantHash common.Hash
		if want != nil {
			wantHash = want.Hash
		}
		if gotCached != wantHash {
			w.fail("C05:height-index:cached-lookup-disagrees", fmt.Sprintf("%s: GetBlockHash(%d)=%s, canonical %s", when, h, gotCached.Hex(), wantHash.Hex()))
		}
	}
	// 2b. nothing above the head is indexed — by hash either: a block of the delivered tree that is
	// not on the canonical chain and lies above the head must not be in the hash index (a stored block
	// answers BlockExisted on redelivery, so the node could never follow that branch again)
	canonSet := map[common.Hash]bool{}
	for _, h := range canon {
		canonSet[h.Hash] = true
	}
	for _, b := range w.t.byName {
		bh := common.HexToHash(b.Hash)
		if canonSet[bh] || b.Height <= head.Height {
			continue
		}
		w.r.Count("hash_index_above_head_probes", 1)
		if chain.HasBlockByHash(bh) || chain.QueryBlockByHash(bh) != nil {
			w.fail("C05:hash-index:entry-above-head", fmt.Sprintf("%s: block %s (height %d) is in the hash index although it is not on the canonical chain and lies above head height %d", when, b.Name, b.Height, head.Height))
		}
	}
	// 3. head state openable
	st, err := middleware.AccountDBManagerInstance.GetAccountDBByHash(head.StateTree)
	if err != nil || st == nil {
		w.fail("C05:state:head-root-not-openable", fmt.Sprintf("%s: state root %s of head %s: %v", when, head.StateTree.Hex(), head.Hash.Hex(), err))
	} else {
		for _, a := range env.RichAccounts {
			if st.GetBalance(common.HexToAddress(a)).Sign() <= 0 {
				w.fail("C05:state:head-state-unreadable", fmt.Sprintf("%s: balance of funded account %s not readable at head state", when, a))
			}
		}
	}
	// 4. pool bookkeeping vs canonical chain
	pool := service.GetTransactionPool()
	canonHash := map[string]bool{}
	var out []string
	for i := len(canon) - 1; i >= 0; i-- {
		canonHash[canon[i].Hash.Hex()] = true
		out = append(out, canon[i].Hash.Hex())
	}
	pending := map[common.Hash]bool{}
	for _, tx := range pool.GetReceived() {
		pending[tx.Hash] = true
	}
	for _, b := range w.t.byName {
		for _, th := range b.Txs {
			h := common.HexToHash(th)
			ex := pool.GetExecuted(h) != nil
			w.r.Count("pool_tx_checks", 1)
			if canonHash[b.Hash] {
				if !ex {
					w.fail("C05:pool:canonical-tx-not-marked-executed", fmt.Sprintf("%s: tx %s of canonical block %s is not marked executed", when, th, b.Name))
				}
				if pending[h] {
					w.fail("C05:pool:canonical-tx-still-pending", fmt.Sprintf("%s: tx %s of canonical block %s is still pending", when, th, b.Name))
				}
			} else {
				if ex {
					w.fail("C05:pool:removed-tx-still-marked-executed", fmt.Sprintf("%s: tx %s of non-canonical block %s is marked executed", when, th, b.Name))
				}
				if checkPending && everCanonical[b.Hash] && !pending[h] {
					w.fail("C05:pool:removed-tx-not-pending", fmt.Sprintf("%s: tx %s of block %s removed by a reorg is not pending again", when, th, b.Name))
				}
			}
		}
	}
	return out
}

// ---------------------------------------------------------------------------
// child modes

func loadScenario(path string) *Scenario {
	b, err := ioutil.ReadFile(path)
	if err != nil {
		fmt.Println("MACHINERY: scenario:", err)
		os.Exit(3)
	}
	var sc Scenario
	if err := json.Unmarshal(b, &sc); err != nil {
		fmt.Println("MACHINERY: scenario:", err)
		os.Exit(3)
	}
	return &sc
}

func headerToBuilt(name string, h *types.BlockHeader) *Built {
	return &Built{NodeSpec: NodeSpec{Name: name}, Hash: h.Hash.Hex(), PreHash: h.PreHash.Hex(), Height: h.Height, TotalQN: h.TotalQN}
}

func childGenesis(r *mon.Run) {
	env.BootCore(env.Forks{}, nil)
	r.Finish(mon.Coverage{})
}

// childBuild manufactures the block tree of a scenario on a clone of the genesis store.
func childBuild(r *mon.Run, scPath, outPath string) {
	sc := loadScenario(scPath)
	env.BootCore(env.Forks{}, nil)
	chain := core.GetBlockChain()
	gh := chain.TopBlock()
	if gh.Height != 0 {
		fmt.Println("MACHINERY: builder store is not at genesis")
		os.Exit(3)
	}
	groupID := core.GetGroupChain().GetGroupByHeight(0).Id
	castor := common.FromHex(env.DevProposerID)
	headers := map[string]*types.BlockHeader{"g": gh}
	built := map[string]*Built{"g": headerToBuilt("g", gh)}
	for i, n := range sc.Nodes {
		p := headers[n.Parent]
		if p == nil {
			fmt.Println("MACHINERY: parent not built:", n.Parent)
			os.Exit(3)
		}
		var txs []*types.Transaction
		for k := 0; k < n.NTx; k++ {
			src := env.RichAccounts[(i+k)%len(env.RichAccounts)]
			dst := fmt.Sprintf("0x%040x", 0x1000+i*16+k)
			txs = append(txs, env.TransferTx(src, map[string]string{dst: fmt.Sprintf("%d.%d", 1+k, i)}, uint64(i*100+k), fmt.Sprintf("sc%d-%s-%d", sc.ID, n.Name, k)))
		}
		common.SetBlockHeight(p.Height)
		height := p.Height + 1 + n.Gap
		ts := p.CurTime.Add(time.Duration(height) * time.Second)
		blk, err := core.VerifBuildBlock(p, ts, height, big.NewInt(n.PV), n.QN, castor, groupID, txs)
		if err != nil || blk == nil {
			fmt.Println("MACHINERY: build failed:", err)
			os.Exit(3)
		}
		bb, err := types.MarshalBlock(blk)
		if err != nil {
			fmt.Println("MACHINERY: marshal failed:", err)
			os.Exit(3)
		}
		// ship what a peer would receive: the parsed form of the bytes
		back, err := types.UnMarshalBlock(bb)
		if err != nil || back.Header.Hash != blk.Header.Hash {
			fmt.Println("MACHINERY: block does not survive the wire codec")
			os.Exit(3)
		}
		headers[n.Name] = back.Header
		b := &Built{NodeSpec: n, Hash: blk.Header.Hash.Hex(), PreHash: blk.Header.PreHash.Hex(), Height: height, TotalQN: blk.Header.TotalQN, Bytes: hex.EncodeToString(bb)}
		for _, tx := range blk.Transactions {
			b.Txs = append(b.Txs, tx.Hash.Hex())
		}
		if len(blk.Header.EvictedTxs) != 0 {
			fmt.Println("MACHINERY: builder evicted transactions")
			os.Exit(3)
		}
		built[n.Name] = b
	}
	ob, _ := json.Marshal(built)
	ioutil.WriteFile(outPath, ob, 0644)
	r.Finish(mon.Coverage{})
}

func decodeBlock(b *Built) *types.Block {
	raw, _ := hex.DecodeString(b.Bytes)
	blk, err := types.UnMarshalBlock(raw)
	if err != nil {
		fmt.Println("MACHINERY: unmarshal block:", err)
		os.Exit(3)
	}
	return blk
}

type progress struct {
	Delivered []string        `json:"delivered"`
	OldHead   string          `json:"old_head"`
	Ever      map[string]bool `json:"ever_canonical"`
}

// childRun delivers the scenario's blocks to a node booted on a clone of the genesis store.
func childRun(r *mon.Run, scPath string) {
	sc := loadScenario(scPath)
	t := newTree(sc.Built)
	env.BootCore(env.Forks{}, nil)
	chain := core.GetBlockChain()
	w := &walker{r: r, sc: sc, t: t}
	for _, b := range sc.Built {
		if b.Height > w.maxH {
			w.maxH = b.Height
		}
	}
	var log []string
	w.witness = func(at string) interface{} {
		return map[string]interface{}{"scenario": scenarioWitness(sc), "delivered": append([]string{}, log...), "at": at}
	}
	armed := false
	writes := 0
	var heads []string
	db.VerifWriteHook = func(kind string, key []byte) {
		if !armed {
			return
		}
		writes++
		if tb := core.GetBlockChain().TopBlock(); tb != nil {
			h := tb.Hash.Hex()
			if len(heads) == 0 || heads[len(heads)-1] != h {
				heads = append(heads, h)
			}
		}
		if sc.ArmAt >= 0 && writes == sc.ArmN {
			d, _ := json.Marshal(map[string]interface{}{"delivery": sc.ArmAt, "n": sc.ArmN, "kind": kind, "key": hex.EncodeToString(key)})
			ioutil.WriteFile("verif-died.json", d, 0644)
			os.Exit(77) // process death before the N-th physical write
		}
	}
	ever := map[string]bool{t.byName["g"].Hash: true}
	res := RunResult{}
	w.check("after boot", true, ever)
	for i, name := range sc.Delivery {
		b := t.byName[name]
		blk := decodeBlock(b)
		before := chain.TopBlock().Hash.Hex()
		if i == sc.ArmAt {
			pb, _ := json.Marshal(progress{Delivered: log, OldHead: before, Ever: ever})
			ioutil.WriteFile("verif-progress.json", pb, 0644)
		}
		r.CaseBegin([]byte(fmt.Sprintf("scenario %d delivery %d %s", sc.ID, i, name)))
		writes = 0
		heads = nil
		armed = sc.ArmAt < 0 || i == sc.ArmAt
		result := chain.AddBlockOnChain(blk)
		armed = false
		log = append(log, name)
		after := chain.TopBlock().Hash.Hex()
		res.Deliveries = append(res.Deliveries, DeliveryResult{Name: name, Result: int(result), Before: before, After: after, Writes: writes, Heads: append([]string{}, heads...)})
		r.Count(fmt.Sprintf("add_result_%d", int(result)), 1)
		r.Count("deliveries", 1)
		canon := w.check(fmt.Sprintf("after delivery %d (%s, result %d)", i, name, result), true, ever)
		for _, h := range canon {
			ever[h] = true
		}
		ob, nb := t.byHash[before], t.byHash[after]
		if nb == nil || ob == nil {
			w.fail("C05:head:unknown-block", fmt.Sprintf("head %s is not a block of the delivered tree", after))
			continue
		}
		if before != after {
			r.Count("head_changes", 1)
			f := t.lca(ob, nb)
			if f.Name != ob.Name {
				r.Count("reorgs", 1)
				depth := len(t.path(ob)) - len(t.path(f))
				r.Max("max_reorg_depth", int64(depth))
			}
		}
		if ok, why := t.notLower(ob, nb); !ok {
			w.fail("C05:fork-choice:head-moved-to-lower-weight:"+why, fmt.Sprintf("delivery %d (%s): head moved from %s (totalQN %d) to %s (totalQN %d), decided by %s", i, name, ob.Name, ob.TotalQN, nb.Name, nb.TotalQN, why))
		}
		if result == types.AddBlockSucc && !containsHash(canon, b.Hash) && chain.TopBlock().Hash.Hex() != b.Hash {
			// the delivered block reported success but is not on the canonical chain (it may have been
			// superseded only by a later future-block insertion, which keeps it canonical)
			w.fail("C05:add:success-but-not-canonical", fmt.Sprintf("delivery %d (%s) returned AddBlockSucc but the block is not on the canonical chain", i, name))
		}
	}
	// the store is usable: the probe child of the final head must be accepted
	if sc.ArmAt < 0 {
		deliverProbe(r, w, t, ever, &log, true)
	}
	ob, _ := json.Marshal(res)
	ioutil.WriteFile("verif-result.json", ob, 0644)
	r.Finish(mon.Coverage{Evaluations: int64(len(sc.Delivery))})
}

func containsHash(l []string, h string) bool {
	for _, x := range l {
		if x == h {
			return true
		}
	}
	return false
}

func deliverProbe(r *mon.Run, w *walker, t *tree, ever map[string]bool, log *[]string, checkPending bool) {
	chain := core.GetBlockChain()
	head := t.byHash[chain.TopBlock().Hash.Hex()]
	if head == nil {
		return
	}
	p := t.byName["p_"+head.Name]
	if p == nil {
		return
	}
	res := chain.AddBlockOnChain(decodeBlock(p))
	*log = append(*log, p.Name)
	r.Count("probe_blocks", 1)
	if res != types.AddBlockSucc || chain.TopBlock().Hash.Hex() != p.Hash {
		w.fail("C05:usable:valid-extension-rejected", fmt.Sprintf("valid child %s of head %s returned %d, head now %s", p.Name, head.Name, res, chain.TopBlock().Hash.Hex()))
		return
	}
	w.check("after probe extension "+p.Name, checkPending, ever)
}

// childRestart boots from the directory a crashed run left behind.
func childRestart(r *mon.Run, scPath string) {
	sc := loadScenario(scPath)
	t := newTree(sc.Built)
	var pg progress
	if b, err := ioutil.ReadFile("verif-progress.json"); err == nil {
		json.Unmarshal(b, &pg)
	}
	died, _ := ioutil.ReadFile("verif-died.json")
	env.BootCore(env.Forks{}, nil)
	chain := core.GetBlockChain()
	w := &walker{r: r, sc: sc, t: t}
	for _, b := range sc.Built {
		if b.Height > w.maxH {
			w.maxH = b.Height
		}
	}
	log := append([]string{}, pg.Delivered...)
	w.witness = func(at string) interface{} {
		return map[string]interface{}{"scenario": scenarioWitness(sc), "delivered_before_crash": pg.Delivered, "crashed_in": sc.Delivery[sc.ArmAt],
			"crash_write": json.RawMessage(died), "after_restart": log[len(pg.Delivered):], "at": at}
	}
	r.Count("restarts", 1)
	ever := pg.Ever
	if ever == nil {
		ever = map[string]bool{}
	}
	w.check("after restart", false, ever)
	head := t.byHash[chain.TopBlock().Hash.Hex()]
	old := t.byHash[pg.OldHead]
	var nw *Built
	if sc.ArmAt < len(sc.Expect) {
		nw = t.byHash[sc.Expect[sc.ArmAt]]
	}
	if head == nil || old == nil || nw == nil {
		w.fail("C05:crash:head-unknown-block", fmt.Sprintf("head after restart %s is not a block of the tree", chain.TopBlock().Hash.Hex()))
	} else {
		allowed := map[string]bool{}
		f := t.lca(old, nw)
		for _, x := range t.path(old) {
			allowed[x.Name] = true
			if x.Name == f.Name {
				break
			}
		}
		for _, x := range t.path(nw) {
			allowed[x.Name] = true
			if x.Name == f.Name {
				break
			}
		}
		for _, h := range sc.Transit {
			if x := t.byHash[h]; x != nil {
				allowed[x.Name] = true
			}
		}
		switch {
		case head.Name == old.Name:
			r.Count("crash_head_old", 1)
		case head.Name == nw.Name:
			r.Count("crash_head_new", 1)
		case head.Name == f.Name:
			r.Count("crash_head_common_ancestor", 1)
		case allowed[head.Name]:
			r.Count("crash_head_on_path_between", 1)
		default:
			w.fail("C05:crash:head-off-path", fmt.Sprintf("after a crash in delivery %s (old head %s, expected new head %s) the head is %s", sc.Delivery[sc.ArmAt], old.Name, nw.Name, head.Name))
		}
	}
	// redeliver the interrupted block and the rest of the schedule; then the store must accept a valid extension
	for i := sc.ArmAt; i < len(sc.Delivery); i++ {
		b := t.byName[sc.Delivery[i]]
		before := t.byHash[chain.TopBlock().Hash.Hex()]
		res := chain.AddBlockOnChain(decodeBlock(b))
		log = append(log, b.Name)
		r.Count(fmt.Sprintf("redeliver_result_%d", int(res)), 1)
		canon := w.check(fmt.Sprintf("after redelivery of %s (result %d)", b.Name, res), false, ever)
		for _, h := range canon {
			ever[h] = true
		}
		after := t.byHash[chain.TopBlock().Hash.Hex()]
		if before != nil && after != nil {
			if ok, why := t.notLower(before, after); !ok {
				w.fail("C05:fork-choice:head-moved-to-lower-weight:"+why, fmt.Sprintf("after restart, redelivery of %s moved the head from %s to %s", b.Name, before.Name, after.Name))
			}
		}
	}
	deliverProbe(r, w, t, ever, &log, false) // the pending set is in memory only and does not survive a restart
	r.Finish(mon.Coverage{Evaluations: 1})
}

func scenarioWitness(sc *Scenario) interface{} {
	w := map[string]interface{}{"id": sc.ID, "shape": sc.Shape, "nodes": sc.Nodes, "delivery": sc.Delivery, "arm_at": sc.ArmAt, "arm_n": sc.ArmN}
	if sc.FS != nil {
		w["fs"] = sc.FS
	}
	return w
}

// ---------------------------------------------------------------------------
// scenario generation (parent)

func genScenario(rng *rand.Rand, id int) *Scenario {
	sc := &Scenario{ID: id, ArmAt: -1}
	// every tree hangs below a common base block z at height 1: the fork flags are process-global
	// (current head height), so only blocks whose parents are at height >= 1 execute under the same
	// flags in the builder and in a node whose head is elsewhere
	sc.Nodes = append(sc.Nodes, NodeSpec{Name: "z", Parent: "g", QN: 1, PV: 100, NTx: 1})
	la := 1 + rng.Intn(4)
	var a []NodeSpec
	parent := "z"
	for i := 1; i <= la; i++ {
		n := NodeSpec{Name: fmt.Sprintf("a%d", i), Parent: parent, QN: uint64(1 + rng.Intn(4)), PV: int64(100 + rng.Intn(3)*50), NTx: rng.Intn(3), Gap: uint64(rng.Intn(3) / 2)}
		a = append(a, n)
		parent = n.Name
	}
	// a third of the trees with two or more A blocks carry a "skip-tie" sibling d1: a child of the fork
	// point that skips heights up to the height of the SECOND A block above the fork point, ties the
	// head's total QN and has a prove value between the fork-point successor's and that second
	// block's (so the comparison at the fork point and a comparison at its own height disagree)
	skipAt := -1
	if la >= 2 && rng.Intn(3) == 0 {
		skipAt = rng.Intn(la - 1)
		a[skipAt].PV = 150 + int64(rng.Intn(2))*50
		a[skipAt+1].PV = 100
	}
	sc.Nodes = append(sc.Nodes, a...)
	// total QN along A
	tq := map[string]uint64{"g": 0, "z": 1}
	for _, n := range a {
		tq[n.Name] = tq[n.Parent] + n.QN
	}
	// competing branch B forking below the A head
	f := rng.Intn(la) // fork after a_f (0 = genesis)
	fp := "z"
	if f > 0 {
		fp = a[f-1].Name
	}
	headQN := tq[a[la-1].Name]
	need := int64(headQN) - int64(tq[fp]) // qn for b1 to tie with the A head
	class := []string{"lower", "tie-pv-lower", "tie-pv-higher", "tie-pv-equal", "higher", "higher"}[rng.Intn(6)]
	siblingPV := a[f].PV // the canonical successor of the fork point
	b1 := NodeSpec{Name: "b1", Parent: fp, NTx: 1 + rng.Intn(2), Gap: uint64(rng.Intn(3) / 2)}
	switch class {
	case "lower":
		if need <= 1 {
			class = "higher"
			b1.QN, b1.PV = uint64(need+1), siblingPV
		} else {
			b1.QN, b1.PV = uint64(need-1), siblingPV+10
		}
	case "tie-pv-lower":
		b1.QN, b1.PV = uint64(need), siblingPV-10
	case "tie-pv-higher":
		b1.QN, b1.PV = uint64(need), siblingPV+10
	case "tie-pv-equal":
		b1.QN, b1.PV = uint64(need), siblingPV
	}
	if class == "higher" {
		b1.QN, b1.PV = uint64(need+1+int64(rng.Intn(2))), siblingPV-10+int64(rng.Intn(3))*10
	}
	if b1.QN == 0 {
		b1.QN = 1
	}
	sc.Nodes = append(sc.Nodes, b1)
	lb := rng.Intn(3)
	bp := "b1"
	for i := 2; i <= 1+lb; i++ {
		n := NodeSpec{Name: fmt.Sprintf("b%d", i), Parent: bp, QN: uint64(1 + rng.Intn(5)), PV: int64(100 + rng.Intn(3)*50), NTx: rng.Intn(2)}
		sc.Nodes = append(sc.Nodes, n)
		bp = n.Name
	}
	// extra siblings at random fork depths whose weight is within +-2 QN of the main head and whose
	// prove value is below / equal to / above the canonical successor's: every delivery of one of
	// them is a fork-choice decision (lower, tie broken by prove value or hash, higher)
	nsib := 2 + rng.Intn(4)
	for k := 1; k <= nsib; k++ {
		ff := rng.Intn(la)
		pp := "z"
		if ff > 0 {
			pp = a[ff-1].Name
		}
		q := int64(headQN) - int64(tq[pp]) + int64([]int{-2, -1, 0, 0, 0, 1, 2}[rng.Intn(7)])
		if q < 1 {
			q = 1
		}
		sc.Nodes = append(sc.Nodes, NodeSpec{Name: fmt.Sprintf("c%d", k), Parent: pp, QN: uint64(q), PV: a[ff].PV + int64(rng.Intn(3)-1)*10, NTx: rng.Intn(2), Gap: uint64(rng.Intn(4) / 3)})
		if rng.Intn(4) == 0 {
			sc.Nodes = append(sc.Nodes, NodeSpec{Name: fmt.Sprintf("c%dx", k), Parent: fmt.Sprintf("c%d", k), QN: uint64(1 + rng.Intn(3)), PV: 120, NTx: 1})
		}
	}
	if skipAt >= 0 {
		pp := "z"
		if skipAt > 0 {
			pp = a[skipAt-1].Name
		}
		q := int64(headQN) - int64(tq[pp])
		if q < 1 {
			q = 1
		}
		pv := a[skipAt].PV - 10 - int64(rng.Intn(3))*10 // below the fork-point successor, above the block at its own height
		if rng.Intn(4) == 0 {
			pv = a[skipAt].PV + 10 // control: must win the tie
		}
		sc.Nodes = append(sc.Nodes, NodeSpec{Name: "d1", Parent: pp, QN: uint64(q), PV: pv, NTx: rng.Intn(2), Gap: a[skipAt].Gap + 1 + a[skipAt+1].Gap})
	}
	real := append([]NodeSpec{}, sc.Nodes...)
	// probes: one valid child per block (and genesis)
	names := []string{"g"}
	for _, n := range real {
		names = append(names, n.Name)
	}
	for _, nm := range names {
		sc.Nodes = append(sc.Nodes, NodeSpec{Name: "p_" + nm, Parent: nm, QN: 1, PV: 77, NTx: 1, Probe: true})
	}
	// delivery order
	var order []string
	for _, n := range real {
		if n.Name != "z" {
			order = append(order, n.Name)
		}
	}
	shape := []string{"A-then-B", "A-then-B", "A-then-shuffled", "B-first", "shuffled", "orphans-first", "A-then-B-dups"}[rng.Intn(7)]
	switch shape {
	case "B-first":
		var bs, as []string
		for _, n := range order {
			if n[0] != 'a' {
				bs = append(bs, n)
			} else {
				as = append(as, n)
			}
		}
		order = append(bs, as...)
	case "A-then-shuffled":
		rest := order[la:]
		rng.Shuffle(len(rest), func(i, j int) { rest[i], rest[j] = rest[j], rest[i] })
	case "shuffled":
		rng.Shuffle(len(order), func(i, j int) { order[i], order[j] = order[j], order[i] })
	case "orphans-first":
		for i, j := 0, len(order)-1; i < j; i, j = i+1, j-1 {
			order[i], order[j] = order[j], order[i]
		}
	case "A-then-B-dups":
		extra := []string{order[rng.Intn(len(order))], order[rng.Intn(len(order))]}
		order = append(order, extra...)
	}
	if skipAt >= 0 && (shape == "A-then-B" || shape == "A-then-shuffled" || shape == "A-then-B-dups") {
		// the skip-tie sibling meets the A head itself: deliver it right after the A blocks
		var o2 []string
		for _, n := range order {
			if n != "d1" {
				o2 = append(o2, n)
			}
		}
		order = append(append(append([]string{}, o2[:la]...), "d1"), o2[la:]...)
	}
	if shape == "orphans-first" {
		order = append(order, "z")
	} else {
		order = append([]string{"z"}, order...)
	}
	sc.Delivery = order
	sc.Shape = fmt.Sprintf("A=%d fork@%d B=%d class=%s order=%s skiptie@%d", la, f, 1+lb, class, shape, skipAt)
	return sc
}

func writeJSON(path string, v interface{}) {
	b, _ := json.Marshal(v)
	ioutil.WriteFile(path, b, 0644)
}

type job struct {
	sc  *Scenario
	res *RunResult
	dir string
}

func main() {
	if args, ok := mon.IsChildInvocation(); ok {
		r := mon.Start(propID())
		switch args[0] {
		case "genesis":
			childGenesis(r)
		case "build":
			childBuild(r, args[1], args[2])
		case "run":
			childRun(r, args[1])
		case "restart":
			childRestart(r, args[1])
		case "fsrun":
			childFSRun(r, args[1])
		case "fsrestart":
			childFSRestart(r, args[1])
		}
		return
	}
	r := mon.Start(propID())
	r.Level = "fault_enumeration"
	defer mon.CleanWork()
	wd := mon.WorkDir()
	gdir := filepath.Join(wd, "genesis")
	if res := r.RunChild(mon.ChildSpec{Label: "genesis", Dir: gdir, Args: []string{"genesis"}, Timeout: 3 * time.Minute}); !r.Absorb(res, "C05:genesis") {
		mon.CleanWork()
		r.Finish(mon.Coverage{MustObserve: []string{"deliveries"}})
	}

	var replay *Scenario
	if p := mon.ReplayArg(); p != "" {
		v, err := mon.LoadReplay(p)
		if err != nil {
			fmt.Println("MACHINERY:", err)
			os.Exit(2)
		}
		var w struct {
			Scenario Scenario `json:"scenario"`
		}
		json.Unmarshal(v.Witness, &w)
		replay = &w.Scenario
		r.Seed = v.Seed
	}

	nsc := r.Pick(48, 1000)
	crashBudget := r.Pick(90, 5000) // crash points (each = 2 processes)
	if poolOnly {
		nsc, crashBudget = r.Pick(14, 120), r.Pick(40, 500)
	}
	var scs []*Scenario
	// VERIF_C05_PHASE=fs|classic restricts a run to the fork-switch phases or to the AddBlockOnChain
	// phases (development aid; the registered check runs both)
	phase := os.Getenv("VERIF_C05_PHASE")
	if replay != nil {
		if replay.FS == nil {
			scs = []*Scenario{replay}
		}
	} else if phase == "fs" {
		scs = nil
	} else {
		for i := 0; i < nsc; i++ {
			scs = append(scs, genScenario(r.Rand("c05", i), i))
		}
	}
	// phase 1+2: build trees, unarmed runs
	jobs := make([]*job, len(scs))
	mon.Parallel(len(scs), 16, func(i int) {
		sc := scs[i]
		sc.ArmAt, sc.ArmN = -1, 0
		bdir := filepath.Join(wd, fmt.Sprintf("b-%d", sc.ID))
		env.CopyDir(gdir, bdir)
		spec := filepath.Join(wd, fmt.Sprintf("spec-%d.json", sc.ID))
		out := filepath.Join(wd, fmt.Sprintf("built-%d.json", sc.ID))
		writeJSON(spec, sc)
		res := r.RunChild(mon.ChildSpec{Label: "build", Dir: bdir, Args: []string{"build", spec, out}, Timeout: 3 * time.Minute})
		os.RemoveAll(bdir)
		if !r.Absorb(res, "C05:builder") {
			return
		}
		bb, err := ioutil.ReadFile(out)
		if err != nil {
			r.Inconclusive("builder for scenario %d produced nothing: %s", sc.ID, res.LogTail)
			return
		}
		json.Unmarshal(bb, &sc.Built)
		for n, b := range sc.Built {
			b.Name = n
		}
		writeJSON(spec, sc)
		ndir := filepath.Join(wd, fmt.Sprintf("n-%d", sc.ID))
		env.CopyDir(gdir, ndir)
		res = r.RunChild(mon.ChildSpec{Label: "run", Dir: ndir, Args: []string{"run", spec}, Timeout: 3 * time.Minute})
		ok := r.Absorb(res, "C05:node")
		var rr RunResult
		if b, err := ioutil.ReadFile(filepath.Join(ndir, "verif-result.json")); err == nil {
			json.Unmarshal(b, &rr)
		}
		os.RemoveAll(ndir)
		if ok {
			jobs[i] = &job{sc: sc, res: &rr}
			r.Count("scenarios", 1)
			heads := false
			for _, d := range rr.Deliveries {
				if d.Before != d.After {
					heads = true
				}
			}
			if heads {
				r.Distinct("nontrivial_scenarios", []byte(sc.Shape), []byte(strings.Join(sc.Delivery, ",")), []byte(fmt.Sprint(sc.Nodes)))
			}
			if sc.ID < 3 {
				r.Sample(map[string]interface{}{"scenario": sc.Shape, "delivery": sc.Delivery, "results": rr.Deliveries})
			}
		}
	})

	// phase 3: crash points. Candidates: deliveries that changed the head; reorgs first, then inserts with txs.
	type cand struct {
		j     *job
		d     int
		reorg bool
		w     int
	}
	var cands []cand
	for _, j := range jobs {
		if j == nil {
			continue
		}
		t := newTree(j.sc.Built)
		for d, dr := range j.res.Deliveries {
			if dr.Before == dr.After || dr.Writes == 0 {
				continue
			}
			ob, nb := t.byHash[dr.Before], t.byHash[dr.After]
			if ob == nil || nb == nil {
				continue
			}
			cands = append(cands, cand{j: j, d: d, reorg: t.lca(ob, nb).Name != ob.Name, w: dr.Writes})
		}
	}
	sort.SliceStable(cands, func(a, b int) bool {
		if cands[a].reorg != cands[b].reorg {
			return cands[a].reorg
		}
		return cands[a].w > cands[b].w
	})
	// alternate reorg / insert candidates while the budget lasts; every chosen delivery is enumerated completely
	var chosen []cand
	used := 0
	var reorgs, inserts []cand
	for _, c := range cands {
		if c.reorg {
			reorgs = append(reorgs, c)
		} else {
			inserts = append(inserts, c)
		}
	}
	for i := 0; used < crashBudget && (i < len(reorgs) || i < len(inserts)); i++ {
		if i < len(reorgs) && used+reorgs[i].w <= crashBudget+40 {
			chosen = append(chosen, reorgs[i])
			used += reorgs[i].w
		}
		if i < len(inserts) && used < crashBudget && used+inserts[i].w <= crashBudget+40 {
			chosen = append(chosen, inserts[i])
			used += inserts[i].w
		}
	}
	type cp struct {
		c cand
		n int
	}
	var cps []cp
	for _, c := range chosen {
		for n := 1; n <= c.w; n++ {
			cps = append(cps, cp{c, n})
		}
		r.Count("crash_enumerated_deliveries", 1)
		if c.reorg {
			r.Count("crash_enumerated_reorgs", 1)
		}
	}
	mon.Parallel(len(cps), 16, func(i int) {
		c := cps[i]
		sc := *c.c.j.sc
		sc.ArmAt, sc.ArmN = c.c.d, c.n
		sc.Expect = nil
		for _, d := range c.c.j.res.Deliveries {
			sc.Expect = append(sc.Expect, d.After)
		}
		sc.Transit = c.c.j.res.Deliveries[c.c.d].Heads
		spec := filepath.Join(wd, fmt.Sprintf("crash-%d-%d-%d.json", sc.ID, c.c.d, c.n))
		writeJSON(spec, &sc)
		dir := filepath.Join(wd, fmt.Sprintf("c-%d-%d-%d", sc.ID, c.c.d, c.n))
		env.CopyDir(gdir, dir)
		res := r.RunChild(mon.ChildSpec{Label: "crash-run", Dir: dir, Args: []string{"run", spec}, Timeout: 3 * time.Minute})
		if res.Exit == 77 {
			r.Count("crash_points", 1)
			r.Distinct("crash_points", []byte(fmt.Sprintf("%d/%d/%d", sc.ID, c.c.d, c.n)))
			r.Absorb(res, "C05:node", 77)
			res2 := r.RunChild(mon.ChildSpec{Label: "restart", Dir: dir, Args: []string{"restart", spec}, Timeout: 3 * time.Minute})
			if !r.Absorb(res2, "C05:restart") && !res2.TimedOut {
				// Absorb recorded a fatal violation; make the witness replayable
				r.Note("restart after crash point %d/%d/%d died: %s", sc.ID, c.c.d, c.n, mon.FatalSite(res2.LogTail))
			}
		} else {
			r.Count("crash_runs_not_reaching_write", 1)
			r.Absorb(res, "C05:node")
		}
		os.RemoveAll(dir)
		os.Remove(spec)
	})
	// phase 4+5: whole branches through the sync path's block fork switch (no-crash and crash points)
	must := []string{"deliveries", "head_changes", "reorgs", "crash_points", "restarts", "invariant_evaluations", "probe_blocks", "pool_tx_checks"}
	if phase == "fs" {
		must = []string{"invariant_evaluations"}
	}
	if !poolOnly && phase != "classic" && (replay == nil || replay.FS != nil) {
		var fsReplay *Scenario
		if replay != nil {
			fsReplay = replay
		}
		runForkSwitchPhase(r, wd, gdir, fsReplay)
		must = append(must, "fs_switches", "fs_outcome_adopted", "fs_outcome_unchanged", "fs_fork_stopped", "fs_fork_verified", "fs_crash_points", "fs_restarts", "fs_resyncs")
	}
	if replay != nil {
		must = []string{"invariant_evaluations"}
	}
	mon.CleanWork()
	r.Finish(mon.Coverage{
		Evaluations:        r.Get("deliveries") + r.Get("crash_points") + r.Get("fs_switches") + r.Get("fs_crash_points"),
		DistinctNontrivial: int64(r.DistinctCount("nontrivial_scenarios") + r.DistinctCount("crash_points") + r.DistinctCount("fs_nontrivial_scenarios") + r.DistinctCount("fs_crash_points")),
		Exhaustive:         false,
		Rule: "scenarios: seeded block trees (main branch 1-4, competing branch forking at any depth with lower/tied/higher weight incl. prove-value and hash ties, optional third sibling, non-contiguous heights, blocks with transactions) built by a separate builder process and delivered through AddBlockOnChain in 5 order shapes (in order, competing first, shuffled, orphans first, duplicates); " +
			"walker after every delivery; non-trivial scenario = at least one head change, distinct by (shape, order, tree). Crash points: for chosen head-changing deliveries (reorgs first) EVERY physical store write is a crash point (process exits before write N), followed by a fresh process restart, walker, head-on-path check, redelivery and a probe extension; distinct by (scenario, delivery, N). " +
			"Fork switches (sync path, hook H4e): a local chain of 2-5 blocks is put on the node, then whole branches of 1-4 blocks (lower / tied with smaller, larger, equal prove value / higher total QN; with and without transactions; ancestor = the fork point, a block below it, or a segment of the local chain; one block corrupted in state root, tx root, pre-hash, hash, request id or height; repeated and retried deliveries) go through VerifBlockForkSwitch; walker + head rule after every switch; crash points = every physical write of chosen adopted switches (2-3 blocks removed, 2-3 added), restart, walker, head-on-path, re-synchronisation of the branch, probe extension",
		Assumptions: []string{"stub ConsensusHelper: signature/VRF validity of blocks is outside this property", "process death, not power loss", "intermediate blocks on the path old head -> fork point -> new head are accepted as post-crash heads (each single insert/remove is the atomic head change; see DESIGN.md C05)"},
		MustObserve: must,
	})
}
