// C01 — block execution is replica-deterministic.
//
// Layer 1 (executor): for each generated (parent state, header, ordered tx list) the real
// block executor (VMExecutor.Execute through the H8 export, situation "fullverify": the
// validator path incl. rewards/refunds) is run R times on fresh AccountDBs opened on the same
// committed parent root; the triple (state root, receipts JSON as calcReceiptsTree hashes
// them, evicted list) must be identical. Go re-randomises map iteration on every range, so
// repetitions inside one process already explore different orders.
// Layer 2 (whole block): a builder process casts blocks (CastBlock mirror); P fresh
// processes booted from copies of the same genesis store must all accept them through
// AddBlockOnChain (the verifier's own state/receipt root comparison).
package main

import (
	"crypto/sha256"
	"encoding/hex"
	"encoding/json"
	"fmt"
	"io/ioutil"
	"math/big"
	"math/rand"
	"os"
	"path/filepath"
	"strconv"
	"strings"
	"sync"
	"sync/atomic"
	"time"

	"com.tuntun.rangers/node/src/common"
	"com.tuntun.rangers/node/src/core"
	"com.tuntun.rangers/node/src/middleware"
	"com.tuntun.rangers/node/src/middleware/types"
	"com.tuntun.rangers/node/src/vm"

	"verifharness/env"
	"verifharness/mon"
)

type TxSpec struct {
	Kind    string            `json:"kind"` // transfer | miner-apply | miner-add | miner-refund | miner-change | contract-create | contract-call
	Source  string            `json:"source"`
	Target  string            `json:"target,omitempty"`
	Targets map[string]string `json:"targets,omitempty"`
	Data    string            `json:"data,omitempty"`
	Nonce   uint64            `json:"nonce"`
	ReqID   uint64            `json:"request_id,omitempty"`
	Tag     string            `json:"tag"`
}

type Input struct {
	Idx    int      `json:"idx"`
	Parent int      `json:"parent"` // index into the committed roots of this child (0 = genesis)
	Height uint64   `json:"height"`
	Group  int      `json:"group"`  // 0 = genesis group, 1..2 = harness groups whose members are the workload's miners
	Castor int      `json:"castor"` // -1 = genesis proposer, k = workload miner k
	Txs    []TxSpec `json:"txs"`
	// SD: the input starts with a contract creation whose init code self-destructs and a transfer to
	// the placeholder target "@created"; SDTarget is the created address (resolved by a probe execution)
	SD       bool   `json:"sd,omitempty"`
	SDTarget string `json:"sd_target,omitempty"`
}

// resolved replaces the placeholder transfer target by the created contract's address.
func (in Input) resolved() Input {
	if !in.SD {
		return in
	}
	t := in.SDTarget
	if t == "" {
		t = addr(5)
	}
	out := in
	out.Txs = nil
	for _, s := range in.Txs {
		if _, ok := s.Targets["@created"]; ok {
			m := map[string]string{}
			for k, v := range s.Targets {
				if k == "@created" {
					k = t
				}
				m[k] = v
			}
			s.Targets = m
		}
		out.Txs = append(out.Txs, s)
	}
	return out
}

func minerID(k int) []byte {
	id := sha256.Sum256([]byte(fmt.Sprintf("miner-%d", k)))
	return id[:]
}

var harnessKey = common.HexStringToSecKey("0x1f2e3d4c5b6a79880102030405060708090a0b0c0d0e0f101112131415161718")

func (s TxSpec) build() *types.Transaction {
	tx := &types.Transaction{Source: s.Source, Target: s.Target, Time: s.Tag, Nonce: s.Nonce, RequestId: s.ReqID, ChainId: common.ChainId(1)}
	switch s.Kind {
	case "transfer":
		tx.Type = types.TransactionTypeOperatorEvent
		m := map[string]types.TransferData{}
		for a, v := range s.Targets {
			m[a] = types.TransferData{Balance: v}
		}
		b, _ := json.Marshal(m)
		tx.ExtraData = string(b)
	case "miner-apply":
		tx.Type, tx.Data = types.TransactionTypeMinerApply, s.Data
	case "miner-add":
		tx.Type, tx.Data = types.TransactionTypeMinerAdd, s.Data
	case "miner-refund":
		tx.Type, tx.Data = types.TransactionTypeMinerRefund, s.Data
	case "miner-change":
		tx.Type, tx.Data = types.TransactionTypeMinerChangeAccount, s.Data
	case "contract-create", "contract-call", "contract-create-sd":
		tx.Type, tx.Data = types.TransactionTypeContract, s.Data
	}
	tx.Hash = tx.GenHash()
	sig := harnessKey.Sign(tx.Hash.Bytes())
	tx.Sign = &sig
	return tx
}

const (
	// init code returning an 11-byte runtime: SSTORE(0,1); LOG0(0,0); STOP
	createCode = "0x600b600c600039600b6000f3" + "600160005560006000a000"
	// a contract that observes the block environment the executor hands to the EVM: the init code stores
	// TIMESTAMP, NUMBER, COINBASE, GASLIMIT and DIFFICULTY in slots 1..5 and emits LOG0(TIMESTAMP); the
	// 14-byte runtime does SSTORE(0,TIMESTAMP); LOG0(TIMESTAMP). Everything the EVM sees must be a
	// function of (header, tx, parent state): the post-state and the receipt (logs) expose it otherwise
	envCode = "0x" + "42600155" + "43600255" + "41600355" + "45600455" + "44600555" + "42600052" + "60206000a0" +
		"600e6029600039600e6000f3" + "4260005542600052" + "60206000a000"
)

func addr(i int) string { return fmt.Sprintf("0x%040x", 0x5000+i) }

func genInput(rng *rand.Rand, idx int, nRoots int) Input {
	// inputs come in batches of 4 with one height (the fork flags are process-global) so that a
	// batch can also be executed concurrently
	in := Input{Idx: idx, Parent: rng.Intn(nRoots), Height: uint64(1 + (idx/4)%5), Group: rng.Intn(3), Castor: rng.Intn(7) - 1}
	if (idx/4)%2 == 1 {
		// every second batch runs more than HeightAfterStake (300) blocks above the first ones: miners
		// applied in the committed parent states are then active, so the election / reward tables of
		// the parent states differ
		in.Height += 400
	}
	ntx := 1 + rng.Intn(8)
	rich := env.RichAccounts
	nonce := map[string]uint64{}
	amounts := []string{"1", "0.5", "0", "0.000000000000000001", "1.0000000000000000001", "3", "8", "5", "999999999", "1000000000", "1000000001", "", "-1", "1e3", "0x10"}
	if rng.Intn(6) == 0 {
		// validators of the signing group that pay out to one shared account with different stakes (the
		// per-block validator reward is then an aggregate over a map of members)
		in.Group = 1 + rng.Intn(2)
		acct := common.FromHex(addr(rng.Intn(4)))
		stakes := []uint64{400, 1300, 450, 800}
		typ, members := byte(common.MinerTypeValidator), 2+rng.Intn(2)
		if rng.Intn(2) == 0 {
			// the same for proposers: three or four proposers paying out to one account (the per-block
			// proposer reward is then summed per account over a map of proposers); they become active
			// HeightAfterStake blocks later, i.e. for the batches that run 400 blocks higher
			typ, members = byte(common.MinerTypeProposer), 3+rng.Intn(2)
			stakes = []uint64{2000, 2500, 4700, 2000}
		}
		rng.Shuffle(len(stakes), func(i, j int) { stakes[i], stakes[j] = stakes[j], stakes[i] })
		for k := 0; k < members; k++ {
			src := rich[k%len(rich)]
			m := types.Miner{Id: minerID(k), PublicKey: minerID(k), VrfPublicKey: minerID(k), Type: typ, Stake: stakes[k]}
			if k < members-1 || rng.Intn(2) == 0 {
				m.Account = acct
			}
			b, _ := json.Marshal(m)
			in.Txs = append(in.Txs, TxSpec{Kind: "miner-apply", Source: src, Nonce: nonce[src], Tag: fmt.Sprintf("i%d-shared-%d", idx, k), Data: string(b)})
			nonce[src]++
		}
	}
	if rng.Intn(25) == 0 {
		ntx = 70 + rng.Intn(131) // a large block (the node packs up to 200 transactions)
	}
	if rng.Intn(8) == 0 {
		// a contract that self-destructs (in its constructor) and is paid again later in the same block:
		// the end-of-block treatment of self-destructed accounts sees a non-zero balance
		in.SD = true
		cd, _ := json.Marshal(types.ContractData{AbiData: "0x33ff", TransferValue: []string{"0", "2"}[rng.Intn(2)], GasLimit: "30000000", GasPrice: "1"})
		// transactions execute sorted by source (largest first): the creation comes from the largest
		// rich account, the payments from smaller ones
		in.Txs = append(in.Txs, TxSpec{Kind: "contract-create-sd", Source: rich[2], Nonce: nonce[rich[2]], Tag: fmt.Sprintf("i%d-sd", idx), Data: string(cd)})
		nonce[rich[2]]++
		for k := 0; k < 1+rng.Intn(2); k++ {
			src := rich[1-k]
			in.Txs = append(in.Txs, TxSpec{Kind: "transfer", Source: src, Nonce: nonce[src], Tag: fmt.Sprintf("i%d-sdpay%d", idx, k), Targets: map[string]string{"@created": []string{"5", "0.25", "1"}[rng.Intn(3)]}})
			nonce[src]++
		}
	}
	if rng.Intn(6) == 0 {
		// one account named twice in the target map, in two spellings, with different amounts
		src := rich[rng.Intn(len(rich))]
		a := rich[(idx+1)%len(rich)] // an address with letters in its hex form
		in.Txs = append(in.Txs, TxSpec{Kind: "transfer", Source: src, Nonce: nonce[src], Tag: fmt.Sprintf("i%d-twice", idx),
			Targets: map[string]string{a: "3", "0x" + strings.ToUpper(a[2:]): "700000000", addr(4): "500000000"}})
		nonce[src]++
	}
	for t := 0; t < ntx; t++ {
		src := rich[rng.Intn(len(rich))]
		s := TxSpec{Source: src, Nonce: nonce[src], Tag: fmt.Sprintf("i%d-t%d", idx, t)}
		if rng.Intn(4) == 0 {
			s.ReqID = uint64(1 + rng.Intn(50))
		}
		switch c := rng.Intn(100); {
		case c < 55:
			s.Kind = "transfer"
			s.Targets = map[string]string{}
			nt := 1 + rng.Intn(6)
			for k := 0; k < nt; k++ {
				var a string
				switch rng.Intn(6) {
				case 0:
					a = src // the source itself among the targets
				case 1:
					a = strings.ToUpper(addr(rng.Intn(4)))
					a = "0x" + a[2:] // same address, different spelling
				default:
					a = addr(rng.Intn(6))
				}
				s.Targets[a] = amounts[rng.Intn(len(amounts))]
			}
			if rng.Intn(3) == 0 { // amounts summing to just above / below the balance (10^9), the source among them
				self := src
				if rng.Intn(2) == 0 { // the source spelled differently from tx.Source
					self = "0x" + strings.ToUpper(src[2:])
				}
				s.Targets = map[string]string{self: "800000000", addr(1): "500000000"}
				if rng.Intn(2) == 0 {
					s.Targets[addr(2)] = "400000000"
				}
			}
		case c < 65:
			s.Kind = "miner-apply"
			id := sha256.Sum256([]byte(fmt.Sprintf("miner-%d", rng.Intn(6))))
			typ := byte(rng.Intn(3) / 2) // two thirds validators (they earn the per-block validator reward)
			stake := []uint64{100, 400, 450, 800, 2000, 2500}[rng.Intn(6)]
			if typ == common.MinerTypeProposer && rng.Intn(3) > 0 {
				stake = []uint64{2000, 2500, 3000, 7000}[rng.Intn(4)] // at or above the proposer minimum: the election table changes
			}
			m := types.Miner{Id: id[:], PublicKey: id[:], VrfPublicKey: id[:], Type: typ, Stake: stake}
			if rng.Intn(2) == 0 {
				m.Account = common.FromHex(addr(rng.Intn(4)))
			}
			b, _ := json.Marshal(m)
			s.Data = string(b)
		case c < 72:
			s.Kind = "miner-add"
			id := sha256.Sum256([]byte(fmt.Sprintf("miner-%d", rng.Intn(6))))
			mid := id[:]
			if rng.Intn(4) == 0 {
				mid = common.FromHex(env.DevProposerID) // the genesis proposer: active at every height
			}
			b, _ := json.Marshal(types.Miner{Id: mid, Stake: uint64(1 + rng.Intn(500))})
			s.Data = string(b)
		case c < 80:
			s.Kind = "miner-refund"
			id := sha256.Sum256([]byte(fmt.Sprintf("miner-%d", rng.Intn(6))))
			b, _ := json.Marshal(map[string]string{"Amount": strconv.Itoa(1 + rng.Intn(3000)), "MinerId": common.ToHex(id[:])})
			s.Data = string(b)
		case c < 85:
			s.Kind = "miner-change"
			id := sha256.Sum256([]byte(fmt.Sprintf("miner-%d", rng.Intn(6))))
			b, _ := json.Marshal(types.Miner{Id: id[:], Account: common.FromHex(addr(rng.Intn(4)))})
			s.Data = string(b)
		case c < 93:
			s.Kind = "contract-create"
			code := createCode
			if rng.Intn(2) == 0 {
				code = envCode // code whose effects depend on the block environment (time, number, coinbase ...)
			}
			b, _ := json.Marshal(types.ContractData{AbiData: code, TransferValue: "0", GasLimit: "30000000", GasPrice: "1"})
			s.Data = string(b)
		default:
			s.Kind = "contract-call"
			s.Target = addr(rng.Intn(3))
			b, _ := json.Marshal(types.ContractData{AbiData: "0x", TransferValue: []string{"0", "1", "2.5"}[rng.Intn(3)], GasLimit: "3000000", GasPrice: "1"})
			s.Data = string(b)
		}
		nonce[src]++
		in.Txs = append(in.Txs, s)
	}
	return in
}

type outcome struct {
	Root     string   `json:"root"`
	Evicted  []string `json:"evicted"`
	Executed []string `json:"executed"`
	Receipts []string `json:"receipts"`
	// ReceiptsRoot is calcReceiptsTree over the receipts
	ReceiptsRoot string `json:"receipts_root"`
}

func (o outcome) key() string {
	b, _ := json.Marshal(o)
	h := sha256.Sum256(b)
	return hex.EncodeToString(h[:])
}

var harnessGroups [][]byte // ids of the groups added by the harness

func execOnce(root common.Hash, in Input, castor, group []byte) (outcome, error) {
	in = in.resolved()
	if in.Group > 0 && in.Group <= len(harnessGroups) {
		group = harnessGroups[in.Group-1]
	}
	if in.Castor >= 0 {
		castor = minerID(in.Castor)
	}
	adb, err := middleware.AccountDBManagerInstance.GetAccountDBByHash(root)
	if err != nil {
		return outcome{}, err
	}
	h := &types.BlockHeader{Height: in.Height, Castor: castor, GroupId: group, CurTime: time.Date(2024, 6, 1, 0, 0, int(in.Height), 0, time.UTC),
		ProveValue: big.NewInt(7), TotalQN: in.Height, Transactions: make([]common.Hashes, 0), EvictedTxs: make([]common.Hash, 0), RequestIds: map[string]uint64{}}
	copy(h.Hash[:], []byte(fmt.Sprintf("c01-input-%d", in.Idx)))
	var txs []*types.Transaction
	for _, s := range in.Txs {
		txs = append(txs, s.build())
	}
	blk := &types.Block{Header: h, Transactions: txs}
	st, ev, ex, rc := core.VerifExecuteBlock(adb, blk, "fullverify")
	o := outcome{Root: st.Hex()}
	for _, e := range ev {
		o.Evicted = append(o.Evicted, e.Hex())
	}
	for _, t := range ex {
		o.Executed = append(o.Executed, t.Hash.Hex())
	}
	for _, r := range rc {
		b, _ := json.Marshal(r)
		o.Receipts = append(o.Receipts, string(b)+"|msg="+r.Msg)
	}
	// the receipts root as the proposer / verifier computes it from this list
	o.ReceiptsRoot = core.VerifCalcReceiptsTree(rc).Hex()
	return o, nil
}

func classify(in Input, a, b outcome) (string, string) {
	in = in.resolved()
	for i := 0; i < len(a.Receipts) && i < len(b.Receipts); i++ {
		if a.Receipts[i] != b.Receipts[i] {
			// find the spec of the executed tx i
			kind, hint := "unknown", ""
			for _, s := range in.Txs {
				if i < len(a.Executed) && s.build().Hash.Hex() == a.Executed[i] {
					kind = s.Kind
					if s.Kind == "transfer" {
						for t := range s.Targets {
							if strings.EqualFold(t, s.Source) && len(s.Targets) > 1 {
								hint = ":source-among-several-targets"
							}
						}
					}
				}
			}
			return "C01:executor:receipt-differs-between-repetitions:" + kind + hint, fmt.Sprintf("receipt %d differs: %s  VS  %s", i, a.Receipts[i], b.Receipts[i])
		}
	}
	if strings.Join(a.Evicted, ",") != strings.Join(b.Evicted, ",") {
		return "C01:executor:evicted-list-differs-between-repetitions", fmt.Sprintf("evicted %v VS %v", a.Evicted, b.Evicted)
	}
	if strings.Join(a.Executed, ",") != strings.Join(b.Executed, ",") {
		return "C01:executor:executed-order-differs-between-repetitions", fmt.Sprintf("executed %v VS %v", a.Executed, b.Executed)
	}
	if a.Root == b.Root && a.ReceiptsRoot != b.ReceiptsRoot {
		return "C01:executor:receipts-root-differs-for-identical-receipts", fmt.Sprintf("the same %d receipts and state root, but receipts root %s VS %s", len(a.Receipts), a.ReceiptsRoot, b.ReceiptsRoot)
	}
	kinds := map[string]bool{}
	for _, s := range in.Txs {
		kinds[s.Kind] = true
	}
	var ks []string
	for _, k := range []string{"transfer", "miner-apply", "miner-add", "miner-refund", "miner-change", "contract-create", "contract-call"} {
		if kinds[k] {
			ks = append(ks, k)
		}
	}
	return "C01:executor:state-root-differs-between-repetitions:" + strings.Join(ks, "+"), fmt.Sprintf("same receipts but state root %s VS %s", a.Root, b.Root)
}

func addHarnessGroups(r *mon.Run) {
	gc := core.GetGroupChain()
	last := gc.LastGroup()
	genesisID := gc.GetGroupByHeight(0).Id
	for g := 0; g < 2; g++ {
		h := &types.GroupHeader{Parent: genesisID, PreGroup: last.Id, CreateHeight: uint64(g + 1), Extends: "verif-c01"}
		h.Hash = h.GenHash()
		id := sha256.Sum256([]byte(fmt.Sprintf("verif-group-%d", g)))
		grp := &types.Group{Header: h, Id: id[:], PubKey: id[:], Signature: id[:]}
		for k := 0; k < 6; k++ {
			if (k+g)%2 == 0 || k < 3 {
				grp.Members = append(grp.Members, minerID(k))
			}
		}
		if err := gc.AddGroup(grp); err != nil {
			fmt.Println("MACHINERY: cannot add harness group:", err)
			os.Exit(3)
		}
		harnessGroups = append(harnessGroups, grp.Id)
		last = grp
	}
}

func childExec(r *mon.Run, args []string) {
	from, _ := strconv.Atoi(args[0])
	to, _ := strconv.Atoi(args[1])
	reps, _ := strconv.Atoi(args[2])
	env.BootCore(env.Forks{}, nil)
	addHarnessGroups(r)
	gen := core.GetBlockChain().TopBlock()
	group := core.GetGroupChain().GetGroupByHeight(0).Id
	castor := common.FromHex(env.DevProposerID)
	roots := []common.Hash{gen.StateTree}
	var replay *Input
	if len(args) > 3 {
		var in Input
		json.Unmarshal([]byte(args[3]), &in)
		replay = &in
	}
	// everything executed by this process, for the late re-execution at the end
	type done struct {
		in    Input
		first outcome
	}
	var history []done
	for base := from; base < to; base += 4 {
		var batch []Input
		var firsts []outcome
		var ok []bool
		for i := base; i < base+4 && i < to; i++ {
			rng := r.Rand("c01-input", i)
			in := genInput(rng, i, len(roots))
			if replay != nil {
				in = *replay
				in.Idx = i
				if in.Parent >= len(roots) {
					in.Parent = 0
				}
			}
			batch = append(batch, in)
		}
		common.SetBlockHeight(batch[0].Height)
		// inputs with a self-destructing creation: a probe execution tells the created address
		for bi := range batch {
			if !batch[bi].SD || batch[bi].SDTarget != "" {
				continue
			}
			var o outcome
			var err error
			if r.Guard("C01:executor-probe", batch[bi], func() { o, err = execOnce(roots[batch[bi].Parent], batch[bi], castor, group) }) || err != nil {
				continue
			}
			want := batch[bi].resolved().Txs[0]
			for k, s := range batch[bi].resolved().Txs {
				if s.Kind == "contract-create-sd" {
					want = batch[bi].resolved().Txs[k]
				}
			}
			h := want.build().Hash.Hex()
			for k, e := range o.Executed {
				if e == h && k < len(o.Receipts) {
					var rc struct {
						ContractAddress string `json:"contractAddress"`
					}
					js := o.Receipts[k]
					if i := strings.Index(js, "|msg="); i >= 0 {
						js = js[:i]
					}
					if json.Unmarshal([]byte(js), &rc) == nil && len(rc.ContractAddress) == 42 && rc.ContractAddress != "0x0000000000000000000000000000000000000000" {
						batch[bi].SDTarget = rc.ContractAddress
						r.Count("selfdestruct_then_paid_inputs", 1)
						if os.Getenv("VERIF_DEBUG") != "" {
							r.Note("DEBUG sd input %d created %s receipts %v", batch[bi].Idx, rc.ContractAddress, o.Receipts)
						}
					}
				}
			}
		}
		// sequential repetitions
		for _, in := range batch {
			b, _ := json.Marshal(in)
			r.CaseBegin(b)
			var first outcome
			distinct := map[string]bool{}
			bad := false
			for rep := 0; rep < reps; rep++ {
				var o outcome
				var err error
				panicked := r.Guard("C01:executor", in, func() { o, err = execOnce(roots[in.Parent], in, castor, group) })
				if panicked || err != nil {
					bad = true
					break
				}
				r.Count("executions", 1)
				distinct[o.key()] = true
				if rep == 0 {
					first = o
				} else if o.key() != first.key() && !bad {
					sig, what := classify(in, first, o)
					r.Violation(sig, fmt.Sprintf("input %d, repetition %d of %d: %s", in.Idx, rep, reps, what), in)
					bad = true
				}
			}
			firsts = append(firsts, first)
			ok = append(ok, !bad)
			r.Count("inputs", 1)
			r.Max("max_distinct_outcomes_per_input", int64(len(distinct)))
			for _, s := range in.Txs {
				r.Count("tx_kind_"+s.Kind, 1)
			}
			if in.Group > 0 {
				r.Count("inputs_with_workload_group", 1)
			}
			nt := len(in.Txs) >= 2
			for _, s := range in.Txs {
				if len(s.Targets) >= 2 {
					nt = true
				}
			}
			if nt {
				r.Distinct("nontrivial_inputs", b)
			}
			if in.Idx == 0 {
				r.Sample(map[string]interface{}{"layer": "executor", "input": in, "outcome_root": first.Root, "receipts": first.Receipts})
			}
		}
		// concurrent phase: the batch's inputs executed at the same time on separate state objects (as the
		// proposer's runTransactions goroutine and block verification do); every outcome must equal the
		// isolated one
		for round := 0; round < reps/2; round++ {
			outs := make([]outcome, len(batch))
			errs := make([]error, len(batch))
			pan := make([]bool, len(batch))
			var wg sync.WaitGroup
			for k := range batch {
				if !ok[k] {
					continue
				}
				wg.Add(1)
				go func(k int) {
					defer wg.Done()
					pan[k] = r.Guard("C01:executor-concurrent", batch[k], func() { outs[k], errs[k] = execOnce(roots[batch[k].Parent], batch[k], castor, group) })
				}(k)
			}
			wg.Wait()
			for k := range batch {
				if !ok[k] || pan[k] || errs[k] != nil {
					continue
				}
				r.Count("concurrent_executions", 1)
				if outs[k].key() != firsts[k].key() {
					_, what := classify(batch[k], firsts[k], outs[k])
					kinds := map[string]bool{}
					for _, s := range batch[k].Txs {
						kinds[s.Kind] = true
					}
					cls := "other"
					if kinds["contract-create"] || kinds["contract-call"] {
						cls = "contract"
					}
					r.Violation("C01:executor:outcome-differs-when-blocks-execute-concurrently:"+cls, fmt.Sprintf("input %d executed concurrently with %d other block executions: %s", batch[k].Idx, len(batch)-1, what),
						map[string]interface{}{"layer": "executor-concurrent", "batch": batch, "differs": batch[k].Idx})
					ok[k] = false
				}
			}
		}
		for k := range batch {
			if ok[k] {
				history = append(history, done{batch[k], firsts[k]})
			}
		}
		// extend the set of parent states: commit the post-state of some deterministic inputs
		for k, in := range batch {
			rng := r.Rand("c01-commit", in.Idx)
			if ok[k] && replay == nil && len(roots) < 8 && rng.Intn(3) == 0 {
				adb, _ := middleware.AccountDBManagerInstance.GetAccountDBByHash(roots[in.Parent])
				g2, c2 := group, castor
				if in.Group > 0 {
					g2 = harnessGroups[in.Group-1]
				}
				if in.Castor >= 0 {
					c2 = minerID(in.Castor)
				}
				h := &types.BlockHeader{Height: in.Height, Castor: c2, GroupId: g2, CurTime: time.Date(2024, 6, 1, 0, 0, int(in.Height), 0, time.UTC),
					ProveValue: big.NewInt(7), TotalQN: in.Height, RequestIds: map[string]uint64{}}
				var txs []*types.Transaction
				for _, s := range in.resolved().Txs {
					txs = append(txs, s.build())
				}
				root, _, _, _ := core.VerifExecuteBlock(adb, &types.Block{Header: h, Transactions: txs}, "fullverify")
				if cr, err := adb.Commit(true); err == nil && cr == root {
					if middleware.AccountDBManagerInstance.GetTrieDB().Commit(cr, false) == nil {
						roots = append(roots, cr)
						r.Count("parent_states_committed", 1)
					}
				}
			}
		}
	}
	// late re-execution: every input once more, after the process has executed everything else
	// (other parent states, other miners and accounts, contract code): the outcome may not depend on
	// what this process happened to execute in between (process-local caches, memoised lookups)
	// order: reversed, then shuffled, so that every input follows other predecessors than in the first pass
	late := make([]done, 0, 2*len(history))
	for i := len(history) - 1; i >= 0; i-- {
		late = append(late, history[i])
	}
	lrng := r.Rand("c01-late", from)
	for _, i := range lrng.Perm(len(history)) {
		late = append(late, history[i])
	}
	flagged := map[int]bool{}
	for _, d := range late {
		if flagged[d.in.Idx] {
			continue
		}
		common.SetBlockHeight(d.in.Height)
		var o outcome
		var err error
		if r.Guard("C01:executor-late", d.in, func() { o, err = execOnce(roots[d.in.Parent], d.in, castor, group) }) || err != nil {
			continue
		}
		r.Count("late_reexecutions", 1)
		if o.key() != d.first.key() {
			_, what := classify(d.in, d.first, o)
			flagged[d.in.Idx] = true
			r.Violation("C01:executor:outcome-depends-on-process-history", fmt.Sprintf("input %d re-executed on the same parent state after the process had executed %d other inputs: %s", d.in.Idx, len(history)-1, what),
				map[string]interface{}{"layer": "executor-late", "input": d.in, "from": from, "to": to})
		}
	}
	r.Finish(mon.Coverage{Evaluations: int64(to - from)})
}

// ---- layer 2 ---------------------------------------------------------------

type shipped struct {
	Blocks []string `json:"blocks"` // hex of marshalled blocks, in chain order
	Inputs []Input  `json:"inputs"`
}

func childBuild(r *mon.Run, args []string) {
	sc, _ := strconv.Atoi(args[0])
	out := args[1]
	env.BootCore(env.Forks{}, nil)
	parent := core.GetBlockChain().TopBlock()
	group := core.GetGroupChain().GetGroupByHeight(0).Id
	castor := common.FromHex(env.DevProposerID)
	var sh shipped
	nb := 1 + sc%3
	slow := sc%3 == 0 // a proposer that runs past the 3 s casting budget inside its first transaction
	var stepCalls int64
	if slow {
		vm.VerifStepHook = func(depth int, pc uint64, op byte, gas uint64, stackLen int, memLen int, readOnly bool) {
			if atomic.AddInt64(&stepCalls, 1) == 1 {
				time.Sleep(3200 * time.Millisecond)
			}
		}
	}
	// scenario class 1: a chain in which a miner's reward account is looked up, changed and reused
	// (apply M_a with account X; a second apply naming X, rejected after a successful by-account
	// lookup; M_a moves to account Y; X is used again by M_c): whatever a long-running process
	// remembers about X from the earlier blocks must not matter — half of the replicas restart
	// before every block
	history := sc%3 == 1
	if history {
		nb = 5
	}
	for b := 0; b < nb; b++ {
		in := genInput(r.Rand("c01-block", sc, b), sc*10+b, 1).resolved()
		if history {
			rich := env.RichAccounts
			X, Y := rich[1+sc%2], rich[3]
			mk := func(k int, typ byte, stake uint64, acct string) string {
				m := types.Miner{Id: minerID(10 + k), PublicKey: minerID(10 + k), VrfPublicKey: minerID(10 + k), Type: typ, Stake: stake}
				if acct != "" {
					m.Account = common.FromHex(acct)
				}
				bb, _ := json.Marshal(m)
				return string(bb)
			}
			typ := byte(sc / 3 % 2)
			stake := []uint64{450, 2500}[typ]
			var tpl []TxSpec
			switch b {
			case 0:
				tpl = []TxSpec{{Kind: "miner-apply", Source: rich[0], Data: mk(0, typ, stake, X)}}
			case 1:
				tpl = []TxSpec{{Kind: "miner-apply", Source: rich[0], Data: mk(1, typ, stake, X)}}
			case 2:
				cb, _ := json.Marshal(types.Miner{Id: minerID(10), Account: common.FromHex(Y)})
				tpl = []TxSpec{{Kind: "miner-change", Source: X, Data: string(cb)}}
			case 3:
				tpl = []TxSpec{{Kind: "miner-apply", Source: rich[0], Data: mk(2, typ, stake, X)}}
			case 4:
				tpl = []TxSpec{{Kind: "miner-apply", Source: rich[0], Data: mk(3, typ, stake, Y)}}
			}
			in.Txs = append(tpl, in.Txs...)
			r.Count("history_scenario_blocks", 1)
		}
		if slow && b == 0 {
			// the contract creation of the largest source address is executed first (transactions are
			// sorted by source); the others are left over when the budget is exhausted
			cd, _ := json.Marshal(types.ContractData{AbiData: createCode, TransferValue: "0", GasLimit: "30000000", GasPrice: "1"})
			first := TxSpec{Kind: "contract-create", Source: "0x8744c51069589296fcb7faa2f891b1f513a0310c", Data: string(cd), Nonce: 0}
			var rest []TxSpec
			for _, s := range in.Txs {
				if s.Source != first.Source {
					rest = append(rest, s)
				}
			}
			rest = append(rest, TxSpec{Kind: "transfer", Source: env.RichAccounts[0], Targets: map[string]string{addr(1): "1"}, Nonce: 77},
				TxSpec{Kind: "transfer", Source: env.RichAccounts[1], Targets: map[string]string{addr(2): "2"}, Nonce: 78})
			in.Txs = append([]TxSpec{first}, rest...)
			// no gate request ids here: CastBlock fixes the header's RequestIds from ALL packed
			// transactions before execution, so a block cut short by the budget that drops the
			// transaction with the highest request id is rejected by every verifier for a header
			// inconsistency — a real block-construction defect, but not an execution-determinism one
			// (recorded in DESIGN.md, outside C01's statement)
			for i := range in.Txs {
				in.Txs[i].ReqID = 0
			}
		}
		for i := range in.Txs {
			in.Txs[i].Tag = fmt.Sprintf("sc%d-b%d-%d", sc, b, i)
		}
		var txs []*types.Transaction
		for _, s := range in.Txs {
			txs = append(txs, s.build())
		}
		common.SetBlockHeight(parent.Height)
		blk, err := core.VerifBuildBlock(parent, parent.CurTime.Add(time.Duration(b+1)*time.Second), parent.Height+1, big.NewInt(int64(100+b)), 1, castor, group, txs)
		if err != nil {
			fmt.Println("MACHINERY: build:", err)
			os.Exit(3)
		}
		if slow && b == 0 {
			r.Count("slow_proposer_blocks", 1)
			if len(blk.Transactions) < len(txs) {
				r.Count("slow_proposer_blocks_cut_short", 1)
			}
		}
		bb, _ := types.MarshalBlock(blk)
		sh.Blocks = append(sh.Blocks, hex.EncodeToString(bb))
		sh.Inputs = append(sh.Inputs, in)
		back, _ := types.UnMarshalBlock(bb)
		parent = back.Header
	}
	ob, _ := json.Marshal(sh)
	ioutil.WriteFile(out, ob, 0644)
	r.Finish(mon.Coverage{})
}

func childVerify(r *mon.Run, args []string) {
	sc, _ := strconv.Atoi(args[0])
	b, _ := ioutil.ReadFile(args[1])
	var sh shipped
	json.Unmarshal(b, &sh)
	from, to := 0, len(sh.Blocks)
	if len(args) >= 4 { // a replica that is restarted: this process verifies blocks [from, to) only
		from, _ = strconv.Atoi(args[2])
		to, _ = strconv.Atoi(args[3])
		r.Count("replica_restarts", 1)
	}
	env.BootCore(env.Forks{}, nil)
	chain := core.GetBlockChain()
	for i, hx := range sh.Blocks {
		if i < from || i >= to {
			continue
		}
		raw, _ := hex.DecodeString(hx)
		blk, err := types.UnMarshalBlock(raw)
		if err != nil {
			fmt.Println("MACHINERY: unmarshal:", err)
			os.Exit(3)
		}
		r.CaseBegin([]byte(fmt.Sprintf("scenario %d block %d", sc, i)))
		res := chain.AddBlockOnChain(blk)
		r.Count("replica_block_verifications", 1)
		if res != types.AddBlockSucc {
			r.Violation("C01:block:replica-rejects-proposers-block", fmt.Sprintf("scenario %d: a fresh replica returned %d for block %d built by the proposer process (state/receipt root or tx tree mismatch)", sc, res, i),
				map[string]interface{}{"layer": "block", "scenario": sc, "block": i, "inputs": sh.Inputs})
			break
		}
	}
	r.Finish(mon.Coverage{Evaluations: int64(len(sh.Blocks))})
}

func main() {
	if args, ok := mon.IsChildInvocation(); ok {
		r := mon.Start("C01")
		switch args[0] {
		case "exec":
			childExec(r, args[1:])
		case "genesis":
			env.BootCore(env.Forks{}, nil)
			r.Finish(mon.Coverage{})
		case "build":
			childBuild(r, args[1:])
		case "verify":
			childVerify(r, args[1:])
		}
		return
	}
	r := mon.Start("C01")
	defer mon.CleanWork()
	wd := mon.WorkDir()
	gdir := filepath.Join(wd, "genesis")
	if res := r.RunChild(mon.ChildSpec{Label: "genesis", Dir: gdir, Args: []string{"genesis"}, Timeout: 3 * time.Minute}); !r.Absorb(res, "C01:genesis") {
		mon.CleanWork()
		r.Finish(mon.Coverage{MustObserve: []string{"inputs"}})
	}
	reps := r.Pick(8, 32)
	if p := mon.ReplayArg(); p != "" {
		v, err := mon.LoadReplay(p)
		if err != nil {
			fmt.Println("MACHINERY:", err)
			os.Exit(2)
		}
		var probe struct {
			Layer    string `json:"layer"`
			Scenario int    `json:"scenario"`
			Case     *Input `json:"case"`
		}
		json.Unmarshal(v.Witness, &probe)
		r.Seed = v.Seed
		if probe.Layer != "block" {
			var in Input
			if probe.Case != nil {
				in = *probe.Case
			} else {
				json.Unmarshal(v.Witness, &in)
			}
			in.Parent = 0
			b, _ := json.Marshal(in)
			dir := filepath.Join(wd, "replay")
			env.CopyDir(gdir, dir)
			res := r.RunChild(mon.ChildSpec{Label: "replay", Dir: dir, Args: []string{"exec", "0", "1", "200", string(b)}, Timeout: 10 * time.Minute})
			r.Absorb(res, "C01:executor")
			mon.CleanWork()
			r.Finish(mon.Coverage{Evaluations: 1, DistinctNontrivial: 2, Rule: "replay of one recorded input, 200 repetitions"})
		}
	}
	// layer 1
	nIn := r.Pick(640, 32000)
	per := r.Pick(40, 300)
	var specs []mon.ChildSpec
	for f := 0; f < nIn; f += per {
		dir := filepath.Join(wd, fmt.Sprintf("e-%d", f))
		env.CopyDir(gdir, dir)
		specs = append(specs, mon.ChildSpec{Label: fmt.Sprintf("exec-%d", f), Dir: dir, Args: []string{"exec", strconv.Itoa(f), strconv.Itoa(f + per), strconv.Itoa(reps)}, Timeout: 25 * time.Minute})
	}
	for _, res := range r.RunChildren(specs, 16) {
		r.Absorb(res, "C01:executor")
		os.RemoveAll(res.Dir)
	}
	// layer 2
	nSc := r.Pick(12, 300)
	replicas := r.Pick(3, 8)
	mon.Parallel(nSc, 8, func(sc int) {
		bdir := filepath.Join(wd, fmt.Sprintf("b-%d", sc))
		env.CopyDir(gdir, bdir)
		out := filepath.Join(wd, fmt.Sprintf("blocks-%d.json", sc))
		res := r.RunChild(mon.ChildSpec{Label: "build", Dir: bdir, Args: []string{"build", strconv.Itoa(sc), out}, Timeout: 5 * time.Minute})
		os.RemoveAll(bdir)
		if !r.Absorb(res, "C01:builder") {
			return
		}
		r.Count("block_scenarios", 1)
		for p := 0; p < replicas; p++ {
			vdir := filepath.Join(wd, fmt.Sprintf("v-%d-%d", sc, p))
			env.CopyDir(gdir, vdir)
			if p%2 == 1 {
				// a replica that restarts before every block (fresh process over the same store)
				nb := 1 + sc%3
				if sc%3 == 1 {
					nb = 5
				}
				for b := 0; b < nb; b++ {
					res := r.RunChild(mon.ChildSpec{Label: "verify-restarting", Dir: vdir, Args: []string{"verify", strconv.Itoa(sc), out, strconv.Itoa(b), strconv.Itoa(b + 1)}, Timeout: 5 * time.Minute})
					if !r.Absorb(res, "C01:replica") || res.Exit != 0 {
						break
					}
				}
			} else {
				res := r.RunChild(mon.ChildSpec{Label: "verify", Dir: vdir, Args: []string{"verify", strconv.Itoa(sc), out}, Timeout: 5 * time.Minute})
				r.Absorb(res, "C01:replica")
			}
			os.RemoveAll(vdir)
		}
	})
	mon.CleanWork()
	r.Finish(mon.Coverage{
		Evaluations:        r.Get("inputs") + r.Get("replica_block_verifications"),
		DistinctNontrivial: int64(r.DistinctCount("nontrivial_inputs")),
		Rule:               fmt.Sprintf("executor layer: seeded inputs (1-8 txs: multi-target transfers incl. the source among the targets, re-spelled addresses, amounts summing around the balance, boundary amount strings; miner apply/add/refund/change-account with colliding ids/accounts; contract create/call) on the genesis state and on post-states committed during the run, each executed %d times on fresh AccountDBs; whole-block layer: blocks cast by a builder process re-verified by %d fresh processes each. Non-trivial: >= 2 txs or >= 2 transfer targets; distinct by input", reps, replicas),
		Assumptions:        []string{"one machine / architecture / Go toolchain", "map iteration orders are sampled by repetition (a 2-order dependence is missed with probability 2^-(R-1))"},
		MustObserve:        []string{"inputs", "executions", "tx_kind_transfer", "tx_kind_miner-apply", "tx_kind_contract-create", "parent_states_committed", "replica_block_verifications", "slow_proposer_blocks_cut_short"},
	})
}
