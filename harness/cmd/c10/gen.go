package main

import (
	"encoding/hex"
	"encoding/json"
	"io/ioutil"
	"math/big"
	"math/rand"
	"os"
	"path/filepath"
	"sort"
	"strings"

	"verifharness/mon"
	"verifharness/ref/evmref"
)

// feat: fork-dependent opcodes the generators may use as ordinary instructions.
type feat struct{ push0, mcopy bool }

type family struct {
	name string
	n    int
	mk   func(i int) *Prog
}

// ---------------------------------------------------------------------------
// values

func pow2(k uint) *big.Int { return new(big.Int).Lsh(big.NewInt(1), k) }
func bi(x int64) *big.Int  { return big.NewInt(x) }
func add(a *big.Int, d int64) *big.Int {
	return new(big.Int).Add(a, big.NewInt(d))
}

var (
	w256    = pow2(256)
	wMax    = add(pow2(256), -1)
	grid2   []*big.Int // boundary grid for unary / binary opcodes
	grid3   []*big.Int // smaller grid for ternary opcodes
	offGrid []*big.Int // memory offsets
)

func fromHex(s string) *big.Int {
	v, ok := new(big.Int).SetString(s, 16)
	if !ok {
		panic("bad hex " + s)
	}
	return v
}

func init() {
	for _, x := range []int64{0, 1, 2, 3, 7, 8, 15, 16, 30, 31, 32, 33, 63, 64, 65, 127, 128, 129, 248, 254, 255, 256, 257, 0x7fff, 0x8000, 0xffff} {
		grid2 = append(grid2, bi(x))
	}
	grid2 = append(grid2, add(pow2(64), -1), pow2(64), pow2(127), add(pow2(128), -1), pow2(128), add(pow2(128), 1), pow2(192), pow2(248),
		pow2(254), add(pow2(255), -1), pow2(255), add(pow2(255), 1),
		add(w256, -257), add(w256, -256), add(w256, -255), add(w256, -33), add(w256, -32), add(w256, -3), add(w256, -2), wMax,
		fromHex("00ff00ff00ff00ff00ff00ff00ff00ff00ff00ff00ff00ff00ff00ff00ff00ff"),
		fromHex("8000000000000000000000000000000080000000000000000000000000000000"),
		fromHex("0102030405060708090a0b0c0d0e0f101112131415161718191a1b1c1d1e1f20"))
	for _, x := range []int64{0, 1, 2, 3, 10, 255} {
		grid3 = append(grid3, bi(x))
	}
	grid3 = append(grid3, pow2(64), add(pow2(128), -1), pow2(128), add(pow2(255), -1), pow2(255), add(pow2(255), 1), add(w256, -3), add(w256, -2), wMax,
		fromHex("fffffffffffffffffffffffffffffffefffffffffffffffffffffffffffffffd"))
	for _, x := range []int64{0, 1, 2, 15, 31, 32, 33, 63, 64, 65, 96, 127, 128, 129, 159, 160, 161, 191, 192, 1000, 4095, 4096, 65535, 200000,
		memSoft - 32, memSoft - 31, memSoft, memHard - 33, memHard - 32, memHard, 1<<32 - 1, 1 << 32, 0x1FFFFFFFE0 - 32, 0x1FFFFFFFE0, 0x1FFFFFFFE1} {
		offGrid = append(offGrid, bi(x))
	}
	offGrid = append(offGrid, pow2(63), add(pow2(64), -33), add(pow2(64), -32), add(pow2(64), -31), add(pow2(64), -1), pow2(64), add(pow2(64), 31), add(pow2(64), 64),
		pow2(128), pow2(255), add(w256, -32), wMax)
}

// randWord draws a 256-bit word biased to the places where word arithmetic breaks.
func randWord(rng *rand.Rand) *big.Int {
	rnd := func(bits int) *big.Int {
		b := make([]byte, 32)
		rng.Read(b)
		v := new(big.Int).SetBytes(b)
		return v.Rsh(v, uint(256-bits))
	}
	switch rng.Intn(10) {
	case 0:
		return rnd(256)
	case 1:
		return rnd(1 + rng.Intn(256))
	case 2:
		return bi(int64(rng.Intn(520)))
	case 3: // 2^k + small
		v := add(pow2(uint(rng.Intn(256))), int64(rng.Intn(5)-2))
		return v.Mod(v, w256)
	case 4: // small negative
		return new(big.Int).Sub(w256, bi(int64(1+rng.Intn(520))))
	case 5: // negative of arbitrary magnitude
		v := new(big.Int).Sub(w256, rnd(1+rng.Intn(255)))
		return v.Mod(v, w256)
	case 6: // sparse
		v := new(big.Int)
		for i := 0; i < 1+rng.Intn(4); i++ {
			v.SetBit(v, rng.Intn(256), 1)
		}
		return v
	case 7: // dense
		v := new(big.Int).Set(wMax)
		for i := 0; i < 1+rng.Intn(4); i++ {
			v.SetBit(v, rng.Intn(256), 0)
		}
		return v
	case 8: // repeated byte / limb pattern
		b := make([]byte, 32)
		p := make([]byte, 1<<uint(rng.Intn(4)))
		rng.Read(p)
		for i := range b {
			b[i] = p[i%len(p)]
		}
		return new(big.Int).SetBytes(b)
	default:
		return grid2[rng.Intn(len(grid2))]
	}
}

// ---------------------------------------------------------------------------
// assembler

type fixup struct {
	pos   int // position of the 2 low bytes to patch
	label int // label id; labelEnd = first byte after body (epilogue entry); labelCodeEnd = end of body+epilogue
	add   int
}

const (
	labelEntry   = -1
	labelCodeEnd = -2
)

type asm struct {
	b      []byte
	fix    []fixup
	labels []int
	ft     feat
}

func (a *asm) op(bs ...byte) { a.b = append(a.b, bs...) }

// pushW emits PUSH<w> with v left-padded to w bytes (v must fit).
func (a *asm) pushW(w int, v *big.Int) {
	vb := v.Bytes()
	if len(vb) > w {
		panic("pushW: value too wide")
	}
	a.b = append(a.b, byte(0x5f+w))
	for i := len(vb); i < w; i++ {
		a.b = append(a.b, 0)
	}
	a.b = append(a.b, vb...)
}

func minWidth(v *big.Int) int {
	w := (v.BitLen() + 7) / 8
	if w == 0 {
		w = 1
	}
	return w
}

// push emits a minimal-width push.
func (a *asm) push(v *big.Int) { a.pushW(minWidth(v), v) }
func (a *asm) pushInt(x int)   { a.push(bi(int64(x))) }

// pushAny picks a width at random (PUSH0 for zero when the fork has it).
func (a *asm) pushAny(rng *rand.Rand, v *big.Int) {
	mw := minWidth(v)
	switch {
	case v.Sign() == 0 && a.ft.push0 && rng.Intn(2) == 0:
		a.op(0x5f)
	case rng.Intn(2) == 0:
		a.pushW(mw, v)
	default:
		a.pushW(mw+rng.Intn(33-mw), v)
	}
}

func (a *asm) newLabel() int { a.labels = append(a.labels, -1); return len(a.labels) - 1 }
func (a *asm) bind(l int)    { a.labels[l] = len(a.b); a.op(0x5b) }

// pushLabel emits PUSH2 <address of label + add>.
func (a *asm) pushLabel(l, add int) {
	a.op(0x61, 0, 0)
	a.fix = append(a.fix, fixup{len(a.b) - 2, l, add})
}

// pushLabelHigh emits PUSH32 whose low 16 bits are the label address and that
// has bit `bit` (>= 16) set: a destination that is only valid after truncation.
func (a *asm) pushLabelHigh(l int, bit int) {
	v := pow2(uint(bit))
	a.pushW(32, v)
	a.fix = append(a.fix, fixup{len(a.b) - 2, l, 0})
}

func (a *asm) finish() []byte {
	for _, f := range a.fix {
		var t int
		switch f.label {
		case labelEntry:
			t = len(a.b)
		case labelCodeEnd:
			t = len(a.b) + epiLen
		default:
			t = a.labels[f.label]
		}
		t += f.add
		if t < 0 {
			t = 0
		}
		a.b[f.pos] = byte(t >> 8)
		a.b[f.pos+1] = byte(t)
	}
	return a.b
}

// ---------------------------------------------------------------------------
// single-opcode families

var binaryOps = []byte{0x01, 0x02, 0x03, 0x04, 0x05, 0x06, 0x07, 0x0a, 0x0b, 0x10, 0x11, 0x12, 0x13, 0x14, 0x16, 0x17, 0x18, 0x1a, 0x1b, 0x1c, 0x1d}
var unaryOps = []byte{0x15, 0x19}
var ternaryOps = []byte{0x08, 0x09}

// opCase: operands[0] ends on top of the stack.
func opCase(op byte, wide bool, operands ...*big.Int) *Prog {
	a := &asm{}
	for i := len(operands) - 1; i >= 0; i-- {
		if wide {
			a.pushW(32, operands[i])
		} else {
			a.push(operands[i])
		}
	}
	a.op(op)
	return &Prog{Op: evmref.Name(op), Body: a.finish(), Tail: "return", Straight: true}
}

// ---------------------------------------------------------------------------
// vectors

var vectorOps = map[string]byte{"add": 0x01, "mul": 0x02, "sub": 0x03, "div": 0x04, "sdiv": 0x05, "mod": 0x06, "smod": 0x07, "exp": 0x0a, "signext": 0x0b,
	"lt": 0x10, "gt": 0x11, "slt": 0x12, "sgt": 0x13, "eq": 0x14, "and": 0x16, "or": 0x17, "xor": 0x18, "byte": 0x1a, "shl": 0x1b, "shr": 0x1c, "sar": 0x1d}

type vec struct {
	op      byte
	x, y, e []byte
}

func loadVectors(r *mon.Run) []vec {
	repo := os.Getenv("VERIF_REPO")
	if repo == "" {
		repo = "/repo"
	}
	files, _ := filepath.Glob(filepath.Join(repo, "src/vm/testdata/testcases_*.json"))
	sort.Strings(files)
	var out []vec
	for _, f := range files {
		name := strings.TrimSuffix(strings.TrimPrefix(filepath.Base(f), "testcases_"), ".json")
		op, ok := vectorOps[name]
		if !ok {
			r.Note("vector file %s: no opcode mapping", name)
			continue
		}
		b, err := ioutil.ReadFile(f)
		if err != nil {
			continue
		}
		var cases []struct{ X, Y, Expected string }
		if json.Unmarshal(b, &cases) != nil {
			continue
		}
		for _, c := range cases {
			x, e1 := hex.DecodeString(c.X)
			y, e2 := hex.DecodeString(c.Y)
			e, e3 := hex.DecodeString(c.Expected)
			if e1 != nil || e2 != nil || e3 != nil || len(e) != 32 {
				continue
			}
			out = append(out, vec{op, x, y, e})
		}
	}
	return out
}

// ---------------------------------------------------------------------------
// memory / data operand grids

type memCase struct {
	op      byte
	args    []*big.Int // args[0] on top
	prefill int        // CALLDATACOPY(0,0,prefill) first
	dataLen int
	tail    string
	after   []byte // instructions after the opcode
}

func patternData(n int) []byte {
	d := make([]byte, n)
	for i := range d {
		d[i] = byte(i*7 + 1)
	}
	return d
}

func ints(xs ...int64) []*big.Int {
	out := make([]*big.Int, len(xs))
	for i, x := range xs {
		out[i] = bi(x)
	}
	return out
}

func memCases(ft feat) []memCase {
	var cs []memCase
	huge := []*big.Int{bi(memHard), bi(1 << 32), add(pow2(64), -1), pow2(64), add(pow2(64), 32), pow2(255), wMax}
	// MLOAD / MSTORE / MSTORE8 over the offset grid
	for _, o := range offGrid {
		cs = append(cs, memCase{op: 0x51, args: []*big.Int{o}, prefill: 200, dataLen: 200, tail: "return"})
		for _, v := range []*big.Int{wMax, grid2[len(grid2)-1], bi(1)} {
			cs = append(cs, memCase{op: 0x52, args: []*big.Int{o, v}, prefill: 200, dataLen: 200, tail: "return"})
		}
		for _, v := range []*big.Int{bi(0xff), bi(0x1ab), bi(0x100), wMax, bi(0)} {
			cs = append(cs, memCase{op: 0x53, args: []*big.Int{o, v}, prefill: 200, dataLen: 200, tail: "return"})
		}
	}
	// MCOPY: overlap in both directions, word edges, zero length with wild offsets
	if ft.mcopy {
		pos := ints(0, 1, 2, 31, 32, 33, 63, 64, 65, 96, 128, 159, 160, 191)
		lens := ints(0, 1, 2, 31, 32, 33, 64, 65, 96, 160)
		for _, d := range pos {
			for _, s := range pos {
				for _, l := range lens {
					cs = append(cs, memCase{op: 0x5e, args: []*big.Int{d, s, l}, prefill: 160, dataLen: 160, tail: "return"})
				}
			}
		}
		for _, hv := range huge {
			for _, l := range ints(0, 1, 32) {
				cs = append(cs, memCase{op: 0x5e, args: []*big.Int{hv, bi(0), l}, prefill: 64, dataLen: 64, tail: "return"})
				cs = append(cs, memCase{op: 0x5e, args: []*big.Int{bi(0), hv, l}, prefill: 64, dataLen: 64, tail: "return"})
				cs = append(cs, memCase{op: 0x5e, args: []*big.Int{hv, hv, l}, prefill: 64, dataLen: 64, tail: "return"})
			}
			cs = append(cs, memCase{op: 0x5e, args: []*big.Int{bi(0), bi(0), hv}, prefill: 64, dataLen: 64, tail: "return"})
		}
	}
	// KECCAK256: sponge rate edges (136), word edges
	for _, o := range append(ints(0, 1, 31, 32, 33, 100), huge...) {
		for _, s := range append(ints(0, 1, 31, 32, 33, 55, 56, 64, 135, 136, 137, 200, 271, 272, 273, 1000), huge[0], huge[3], wMax) {
			cs = append(cs, memCase{op: 0x20, args: []*big.Int{o, s}, prefill: 300, dataLen: 300, tail: "return"})
		}
	}
	// CALLDATACOPY / CODECOPY: source window sliding over the end of the data
	for _, op := range []byte{0x37, 0x39} {
		for _, d := range append(ints(0, 1, 31, 32, 33), huge[0], huge[3]) {
			for _, s := range append(ints(0, 1, 30, 67, 68, 69, 99, 100, 101, 131, 132, 133, 200, 250, 300), huge...) {
				for _, l := range append(ints(0, 1, 31, 32, 33, 64, 100, 101), huge[0], huge[3]) {
					cs = append(cs, memCase{op: op, args: []*big.Int{d, s, l}, dataLen: 100, tail: "return"})
				}
			}
		}
	}
	// CALLDATALOAD
	for _, dl := range []int{0, 1, 31, 32, 33, 64, 100} {
		for _, o := range append(ints(0, 1, 2, 30, 31, 32, 33, 63, 64, 67, 68, 69, 99, 100, 101), huge...) {
			cs = append(cs, memCase{op: 0x35, args: []*big.Int{o}, dataLen: dl, tail: "return"})
		}
	}
	// RETURN / REVERT with explicit windows (no epilogue)
	for _, op := range []byte{0xf3, 0xfd} {
		for _, o := range append(ints(0, 1, 31, 32, 33, 64, 95, 96, 97, 1000), huge...) {
			for _, s := range append(ints(0, 1, 31, 32, 33, 64, 96, 97, 200), huge[0], huge[3], wMax) {
				cs = append(cs, memCase{op: op, args: []*big.Int{o, s}, prefill: 96, dataLen: 96, tail: "none"})
			}
		}
	}
	// MSIZE after a touch at each offset class, then an MLOAD below
	for _, o := range ints(0, 1, 31, 32, 33, 63, 64, 1000, 4095, 4096) {
		cs = append(cs, memCase{op: 0x51, args: []*big.Int{o}, tail: "return", after: []byte{0x59, 0x60, 0x00, 0x51, 0x59}})
		cs = append(cs, memCase{op: 0x53, args: []*big.Int{o, bi(0xee)}, tail: "return", after: []byte{0x59, 0x60, 0x00, 0x51, 0x59}})
	}
	return cs
}

func (c memCase) prog() *Prog {
	a := &asm{}
	if c.prefill > 0 {
		a.pushInt(c.prefill)
		a.pushInt(0)
		a.pushInt(0)
		a.op(0x37)
	}
	for i := len(c.args) - 1; i >= 0; i-- {
		a.push(c.args[i])
	}
	a.op(c.op)
	a.op(c.after...)
	return &Prog{Op: evmref.Name(c.op), Body: a.finish(), Data: patternData(c.dataLen), Tail: c.tail, Straight: true}
}

// ---------------------------------------------------------------------------
// jump destination maps (exhaustive)

type jmCase struct {
	a, n, m int // a JUMPDEST bytes of padding, PUSHn with m data bytes present (m == n: complete)
	t       int // jump target
	full    bool
}

func jumpMapCases() []jmCase {
	var cs []jmCase
	for a := 0; a <= 8; a++ {
		for n := 1; n <= 32; n++ {
			end := 4 + a + 1 + n + 2 // epilogue entry
			for t := 0; t <= end+1; t++ {
				cs = append(cs, jmCase{a, n, n, t, true})
			}
		}
	}
	for _, a := range []int{0, 3, 7} {
		for n := 1; n <= 32; n++ {
			for _, m := range []int{0, n / 2, n - 1} {
				l := 4 + a + 1 + m
				for t := 0; t <= l+1; t++ {
					cs = append(cs, jmCase{a, n, m, t, false})
				}
			}
		}
	}
	return cs
}

// bigCodeCases: the same PUSH32 trap behind more than 64 KiB of JUMPDESTs
// (destinations need 3 bytes; bitmap positions far from the start).
func bigCodeCases() []*Prog {
	var ps []*Prog
	for _, pad := range []int{65536 - 5 - 20, 65536 - 5, 70001} {
		for _, n := range []int{1, 8, 31, 32} {
			start := 5 + pad // position of the PUSHn opcode
			for t := start - 2; t <= start+n+3; t++ {
				b := []byte{0x62, byte(t >> 16), byte(t >> 8), byte(t), 0x56}
				for i := 0; i < pad; i++ {
					b = append(b, 0x5b)
				}
				b = append(b, byte(0x5f+n))
				for i := 0; i < n; i++ {
					b = append(b, 0x5b)
				}
				b = append(b, 0x5b, 0x5b)
				ps = append(ps, &Prog{Body: b, Tail: "return", Note: "jump map behind 64 KiB of code"})
			}
		}
	}
	return ps
}

func (c jmCase) prog() *Prog {
	b := []byte{0x61, byte(c.t >> 8), byte(c.t), 0x56}
	for i := 0; i < c.a; i++ {
		b = append(b, 0x5b)
	}
	b = append(b, byte(0x5f+c.n))
	for i := 0; i < c.m; i++ {
		b = append(b, 0x5b)
	}
	tail := "none"
	if c.full {
		b = append(b, 0x5b, 0x5b)
		tail = "return"
	}
	return &Prog{Body: b, Tail: tail}
}

// ---------------------------------------------------------------------------
// stack edge programs

func stackCases(ft feat) []*Prog {
	var ps []*Prog
	for n := 1; n <= 16; n++ {
		for _, depth := range []int{n - 1, n, n + 1, n + 2} {
			for _, op := range []byte{byte(0x7f + n), byte(0x8f + n)} {
				a := &asm{}
				for i := 0; i < depth; i++ {
					a.pushInt(0xa0 + i)
				}
				a.op(op)
				ps = append(ps, &Prog{Op: evmref.Name(op), Body: a.finish(), Tail: "return", Straight: true})
			}
		}
	}
	// stack limit: k x PC then one more instruction
	for _, k := range []int{1022, 1023, 1024, 1025} {
		for _, extra := range [][]byte{{}, {0x58}, {0x80}, {0x90}, {0x50}, {0x5b}, {0x01}, {0x60, 0x01}, {0x59}, {0x36}, {0x38}, {0x5f}, {0x8f}, {0x9f}, {0x19}, {0x15}} {
			b := make([]byte, 0, k+2)
			for i := 0; i < k; i++ {
				b = append(b, 0x58)
			}
			b = append(b, extra...)
			ps = append(ps, &Prog{Body: b, Tail: "return", Straight: true, Note: "stack limit"})
		}
	}
	return ps
}

// terminators, undefined bytes, truncated PUSH at the end of the code
func termCases(ft feat) []*Prog {
	var ps []*Prog
	for n := 1; n <= 32; n++ {
		for m := 0; m <= n; m++ {
			b := []byte{0x60, 0x07, byte(0x5f + n)}
			for i := 0; i < m; i++ {
				b = append(b, byte(0x5b+i))
			}
			ps = append(ps, &Prog{Op: evmref.Name(byte(0x5f + n)), Body: b, Tail: "none", Straight: true, Note: "PUSH data truncated by the end of the code"})
		}
	}
	for op := 0; op < 256; op++ {
		if evmref.NeverAssigned(byte(op)) || op == 0xfe || op == 0x00 || (op == 0x5f && !ft.push0) || (op == 0x5e && !ft.mcopy) {
			for _, pre := range [][]byte{{}, {0x60, 0x01, 0x60, 0x02, 0x60, 0x03}} {
				ps = append(ps, &Prog{Body: append(append([]byte{}, pre...), byte(op)), Tail: "none", Note: "terminator / undefined byte"})
				ps = append(ps, &Prog{Body: append(append([]byte{}, pre...), byte(op)), Tail: "return", Note: "terminator / undefined byte, code follows"})
			}
		}
	}
	ps = append(ps, &Prog{Body: []byte{0x58}, Tail: "none", Note: "runs off the end of the code"})
	ps = append(ps, &Prog{Body: []byte{0x5b}, Tail: "none"})
	return ps
}

// ---------------------------------------------------------------------------
// random straight-line programs with a stack discipline

func smallOff(rng *rand.Rand) int {
	switch x := rng.Intn(20); {
	case x < 11:
		return []int{0, 1, 2, 31, 32, 33, 63, 64, 65, 95, 96, 97, 127, 128, 129, 160}[rng.Intn(16)]
	case x < 16:
		return rng.Intn(1024)
	case x < 19:
		return rng.Intn(8192)
	default:
		return rng.Intn(200000)
	}
}

func smallLen(rng *rand.Rand) int {
	if rng.Intn(3) == 0 {
		return rng.Intn(300)
	}
	return []int{0, 1, 2, 31, 32, 33, 64, 65, 96, 100, 136}[rng.Intn(11)]
}

// pushValue emits one push of a random constant with a random encoding.
func pushValue(a *asm, rng *rand.Rand) {
	if rng.Intn(3) == 0 { // uniform width, value filling that width: every PUSHn gets used
		w := 1 + rng.Intn(32)
		b := make([]byte, w)
		rng.Read(b)
		if rng.Intn(4) == 0 {
			b[0] = 0
		}
		a.op(byte(0x5f + w))
		a.op(b...)
		return
	}
	a.pushAny(rng, randWord(rng))
}

type lineOpts struct {
	memBias bool
}

func genLine(rng *rand.Rand, ft feat, o lineOpts) *Prog {
	a := &asm{ft: ft}
	depth := 0
	n := 5 + rng.Intn(56)
	target := 2 + rng.Intn(22)
	memW := 8
	if o.memBias {
		memW = 45
		target = 2 + rng.Intn(6)
	}
	dataLen := []int{0, 4, 32, 36, 68, 100, 200}[rng.Intn(7)]
	for i := 0; i < n; i++ {
		x := rng.Intn(100 + memW)
		switch {
		case depth < 2 || (depth < target && x < 38) || x < 10:
			if depth < 1000 {
				pushValue(a, rng)
				depth++
			}
		case x < 44:
			a.op(binaryOps[rng.Intn(len(binaryOps))])
			depth--
		case x < 49:
			if depth >= 3 {
				a.op(ternaryOps[rng.Intn(2)])
				depth -= 2
			}
		case x < 54:
			a.op(unaryOps[rng.Intn(2)])
		case x < 67:
			k := 1 + rng.Intn(16)
			if k > depth {
				k = 1 + rng.Intn(depth)
			}
			a.op(byte(0x7f + k))
			depth++
		case x < 79:
			k := 1 + rng.Intn(16)
			if k > depth-1 {
				k = 1 + rng.Intn(depth-1)
			}
			a.op(byte(0x8f + k))
		case x < 83:
			a.op(0x50)
			depth--
		case x < 89:
			op := []byte{0x58, 0x59, 0x36, 0x38, 0x5b}[rng.Intn(5)]
			a.op(op)
			if op != 0x5b {
				depth++
			}
		case x < 92:
			if rng.Intn(2) == 0 {
				a.pushInt([]int{0, 1, 4, 31, 32, 33, dataLen - 32, dataLen - 31, dataLen - 1, dataLen, dataLen + 1}[rng.Intn(11)] & 0xffff)
				depth++
			}
			a.op(0x35)
		case x < 100 && !o.memBias && rng.Intn(3) != 0:
			pushValue(a, rng)
			depth++
		default: // memory instruction; operands pushed fresh unless "raw"
			raw := rng.Intn(50) == 0
			kinds := []byte{0x51, 0x52, 0x53, 0x20, 0x37, 0x39, 0x59}
			if ft.mcopy {
				kinds = append(kinds, 0x5e, 0x5e)
			}
			op := kinds[rng.Intn(len(kinds))]
			pops, delta := evmref.StackEffect(op)
			if raw {
				if depth >= pops {
					a.op(op)
					depth += delta
				}
				continue
			}
			switch op {
			case 0x51:
				a.pushInt(smallOff(rng))
				a.op(op)
				depth++
			case 0x52, 0x53: // value from the stack
				a.pushInt(smallOff(rng))
				a.op(op)
				depth--
			case 0x20:
				a.pushInt(smallLen(rng))
				a.pushInt(smallOff(rng))
				a.op(op)
				depth++
			case 0x37, 0x39:
				a.pushInt(smallLen(rng))
				if rng.Intn(4) == 0 {
					a.pushAny(rng, randWord(rng))
				} else {
					a.pushInt(rng.Intn(260))
				}
				a.pushInt(smallOff(rng))
				a.op(op)
			case 0x5e:
				a.pushInt(smallLen(rng))
				a.pushInt(smallOff(rng))
				a.pushInt(smallOff(rng))
				a.op(op)
			case 0x59:
				a.op(op)
				depth++
			}
		}
	}
	p := &Prog{Data: patternData(dataLen), Tail: "return", Straight: true}
	switch x := rng.Intn(100); {
	case x < 82:
	case x < 92:
		p.Tail = "revert"
	case x < 95:
		a.op(0x00)
		p.Tail = "none"
	case x < 98:
		a.op(0xfe)
		p.Tail = "none"
	default:
		bad := []byte{0x0c, 0x0f, 0x1e, 0x21, 0x2f, 0x4b, 0x4f, 0xa5, 0xb0, 0xc7, 0xe9, 0xf8, 0xfb, 0xfc}
		if !ft.push0 {
			bad = append(bad, 0x5f, 0x5f, 0x5f)
		}
		if !ft.mcopy {
			bad = append(bad, 0x5e, 0x5e, 0x5e)
		}
		a.op(bad[rng.Intn(len(bad))])
		// leave the epilogue in place: it must not be reached
	}
	p.Body = a.finish()
	return p
}

// ---------------------------------------------------------------------------
// branching programs

var cmpOps = []byte{0x10, 0x11, 0x12, 0x13, 0x14}

// junk emits dead bytes. safe: whole PUSHn units only (the following byte stays
// an instruction boundary); otherwise raw bytes that may swallow what follows.
func junk(a *asm, rng *rand.Rand, safe bool) {
	n := 1 + rng.Intn(40)
	if safe {
		for n > 0 {
			w := 1 + rng.Intn(32)
			a.op(byte(0x5f + w))
			for i := 0; i < w; i++ {
				a.op(junkByte(rng))
			}
			n -= w + 1
		}
		return
	}
	for i := 0; i < n; i++ {
		a.op(junkByte(rng))
	}
}

func junkByte(rng *rand.Rand) byte {
	switch rng.Intn(8) {
	case 0, 1, 2:
		return 0x5b
	case 3, 4:
		return byte(0x60 + rng.Intn(32))
	case 5:
		return []byte{0x00, 0xfe, 0x56, 0x57, 0xf3, 0x5f}[rng.Intn(6)]
	default:
		return byte(rng.Intn(256))
	}
}

// accOps transforms the accumulator on top of the stack.
func accOps(a *asm, rng *rand.Rand) {
	for k := 1 + rng.Intn(3); k > 0; k-- {
		switch rng.Intn(4) {
		case 0:
			a.op(unaryOps[rng.Intn(2)])
		case 1:
			a.op(0x80, binaryOps[rng.Intn(len(binaryOps))])
		default:
			a.pushAny(rng, randWord(rng))
			a.op(binaryOps[rng.Intn(len(binaryOps))])
		}
	}
}

// loopSnippet: stack [.., acc, cnt] -> same shape.
func loopSnippet(a *asm, rng *rand.Rand) {
	switch rng.Intn(7) {
	case 0:
		a.op(0x90)
		a.pushAny(rng, randWord(rng))
		a.op(binaryOps[rng.Intn(len(binaryOps))], 0x90)
	case 1:
		a.op(0x90, 0x81, binaryOps[rng.Intn(len(binaryOps))], 0x90)
	case 2: // mem[cnt*32] = acc
		a.op(0x81, 0x81, 0x60, 0x05, 0x1b, 0x52)
	case 3: // acc += mem[cnt*32]
		a.op(0x90, 0x81, 0x60, 0x05, 0x1b, 0x51, 0x01, 0x90)
	case 4: // mem8[cnt] = acc
		a.op(0x81, 0x81, 0x53)
	case 5: // acc = keccak(acc)
		a.op(0x90, 0x60, 0x00, 0x52, 0x60, 0x20, 0x60, 0x00, 0x20, 0x90)
	case 6: // acc = acc ** cnt, or addmod with the counter
		if rng.Intn(2) == 0 {
			a.op(0x90, 0x81, 0x90, 0x0a, 0x90)
		} else {
			a.op(0x90, 0x81, 0x81)
			a.pushAny(rng, randWord(rng))
			a.op(0x90, ternaryOps[rng.Intn(2)], 0x01, 0x90)
		}
	}
}

func genBranch(rng *rand.Rand, ft feat) *Prog {
	a := &asm{ft: ft}
	a.pushAny(rng, randWord(rng)) // acc
	// a PUSH whose data is full of JUMPDEST bytes, for "into push data" targets
	trapAt := -1
	if rng.Intn(2) == 0 {
		w := []int{1, 2, 7, 8, 9, 31, 32}[rng.Intn(7)]
		trapAt = len(a.b) + 1
		a.op(byte(0x5f + w))
		for i := 0; i < w; i++ {
			a.op(0x5b)
		}
		a.op(0x50)
		trapAt += rng.Intn(w)
	}
	nc := 1 + rng.Intn(4)
	for c := 0; c < nc; c++ {
		switch x := rng.Intn(12); {
		case x < 3: // counted loop (do-while)
			a.pushInt(1 + rng.Intn(50))
			l := a.newLabel()
			a.bind(l)
			for k := 1 + rng.Intn(3); k > 0; k-- {
				loopSnippet(a, rng)
			}
			a.op(0x60, 0x01, 0x90, 0x03, 0x80)
			a.pushLabel(l, 0)
			a.op(0x57, 0x50)
		case x < 6: // if / else
			if rng.Intn(4) == 0 {
				a.op(0x80, 0x15)
			} else {
				a.op(0x80)
				a.pushAny(rng, randWord(rng))
				a.op(cmpOps[rng.Intn(len(cmpOps))])
			}
			t, j := a.newLabel(), a.newLabel()
			a.pushLabel(t, 0)
			a.op(0x57)
			accOps(a, rng)
			a.pushLabel(j, 0)
			a.op(0x56)
			if rng.Intn(2) == 0 {
				junk(a, rng, rng.Intn(3) != 0)
			}
			a.bind(t)
			accOps(a, rng)
			if rng.Intn(3) == 0 {
				a.op(0x58) // the two arms leave different stack depths
			}
			a.bind(j)
		case x < 8: // forward jump over dead bytes
			t := a.newLabel()
			a.pushLabel(t, 0)
			a.op(0x56)
			junk(a, rng, rng.Intn(2) == 0)
			a.bind(t)
			accOps(a, rng)
		case x < 9: // early exit to the epilogue
			a.op(0x80)
			a.pushAny(rng, randWord(rng))
			a.op(cmpOps[rng.Intn(len(cmpOps))])
			a.pushLabel(labelEntry, 0)
			a.op(0x57)
			accOps(a, rng)
		default: // a jump whose destination is (usually) not a JUMPDEST
			cond := rng.Intn(3) // 0: JUMP, 1: JUMPI taken, 2: JUMPI not taken
			if cond == 1 {
				a.pushAny(rng, []*big.Int{bi(1), pow2(255), wMax, pow2(64), bi(256)}[rng.Intn(5)])
			} else if cond == 2 {
				a.pushAny(rng, bi(0))
			}
			good := a.newLabel()
			switch k := rng.Intn(11); {
			case k == 0 && trapAt >= 0:
				a.pushInt(trapAt)
			case k == 1:
				a.pushLabel(labelCodeEnd, rng.Intn(3)-1)
			case k == 2:
				a.pushLabel(labelCodeEnd, 1+rng.Intn(300))
			case k == 3:
				a.pushLabelHigh(good, []int{16, 32, 63, 64, 65, 128, 255}[rng.Intn(7)])
			case k == 4:
				a.pushAny(rng, randWord(rng))
			case k == 5:
				a.pushLabel(good, 1) // the byte after a JUMPDEST
			case k == 6:
				a.pushLabel(good, -1) // the JUMP / JUMPI itself
			case k == 7:
				a.pushInt(0)
			case k == 8:
				a.pushLabel(labelEntry, 1+rng.Intn(epiLen-1)) // inside the epilogue
			default:
				a.pushLabel(good, 0) // a valid one after all
			}
			if cond == 0 {
				a.op(0x56)
			} else {
				a.op(0x57)
			}
			a.bind(good)
			accOps(a, rng)
		}
	}
	tail := "return"
	if rng.Intn(8) == 0 {
		tail = "revert"
	}
	return &Prog{Body: a.finish(), Data: patternData(36), Tail: tail}
}

// genMaze: dead-looking bytes rich in JUMPDEST / PUSH opcodes, entered by a
// jump to a random position.
func genMaze(rng *rand.Rand, ft feat) *Prog {
	n := 10 + rng.Intn(70)
	alphabet := []byte{0x5b, 0x5b, 0x5b, 0x58, 0x59, 0x36, 0x38, 0x5b}
	if ft.push0 {
		alphabet = append(alphabet, 0x5f)
	}
	mz := make([]byte, n)
	for i := range mz {
		if rng.Intn(3) == 0 {
			mz[i] = byte(0x60 + rng.Intn(32))
		} else {
			mz[i] = alphabet[rng.Intn(len(alphabet))]
		}
	}
	var b []byte
	hdr := 4
	cond := rng.Intn(4)
	if cond == 1 {
		b = append(b, 0x60, byte(rng.Intn(2))) // JUMPI with cond 0 / 1
		hdr += 2
	}
	t := hdr + rng.Intn(n+3)
	if rng.Intn(2) == 0 { // prefer JUMPDEST-looking bytes
		var cand []int
		for i, c := range mz {
			if c == 0x5b {
				cand = append(cand, hdr+i)
			}
		}
		if len(cand) > 0 {
			t = cand[rng.Intn(len(cand))]
		}
	}
	b = append(b, 0x61, byte(t>>8), byte(t))
	if cond == 1 {
		b = append(b, 0x57)
	} else {
		b = append(b, 0x56)
	}
	b = append(b, mz...)
	tail := "return"
	if rng.Intn(4) == 0 {
		tail = "none" // the maze's last PUSH may be truncated by the end of the code
	}
	return &Prog{Body: b, Data: patternData(8), Tail: tail}
}

// ---------------------------------------------------------------------------
// stack boundary: every opcode the real table defines and whose Ethereum stack
// arity is known, offered with exactly (required-1), (required), and — at the
// limit — (1024 - net growth) and one more item on the stack.

func edgeCases(defined [256]bool) []*Prog {
	var ps []*Prog
	for o := 0; o < 256; o++ {
		op := byte(o)
		known, pops, push := evmref.Spec(op)
		if !known || !defined[o] {
			continue
		}
		var depths []int
		if pops >= 1 {
			depths = append(depths, pops-1)
		}
		depths = append(depths, pops)
		if push > pops {
			depths = append(depths, 1024-(push-pops), 1024-(push-pops)+1)
		} else {
			depths = append(depths, 1023, 1024)
		}
		for _, d := range depths {
			nf, na := 4, 3
			if d > 1000 { // the limit itself: more ways of getting there and of going on
				nf, na = 8, 4
			}
			for fill := 0; fill < nf; fill++ {
				for after := 0; after < na; after++ {
					var b []byte
					switch {
					case fill == 0 && d <= 24:
						for i := 0; i < d; i++ {
							b = append(b, 0x60, 0x00)
						}
					case fill == 0:
						for i := 0; i < d; i++ {
							b = append(b, 0x59) // MSIZE of an untouched memory: zero
						}
					case fill == 1:
						for i := 0; i < d; i++ {
							b = append(b, 0x58)
						}
					case fill == 2:
						for i := 0; i < d; i++ {
							b = append(b, 0x36)
						}
					case fill == 3:
						if d > 0 {
							b = append(b, 0x59)
						}
						for i := 1; i < d; i++ {
							b = append(b, 0x80)
						}
					case fill == 4:
						for i := 0; i < d; i++ {
							b = append(b, 0x38)
						}
					case fill == 5:
						for i := 0; i < d; i++ {
							b = append(b, []byte{0x58, 0x59, 0x36}[i%3])
						}
					case fill == 6:
						for i := 0; i < d; i++ {
							b = append(b, 0x60, byte(i))
						}
					default: // 16 pushes, then DUP16 all the way
						for i := 0; i < d && i < 16; i++ {
							b = append(b, 0x60, byte(0xa0+i))
						}
						for i := 16; i < d; i++ {
							b = append(b, 0x8f)
						}
					}
					b = append(b, op)
					if op >= 0x60 && op <= 0x7f {
						for i := 0; i < int(op-0x5f); i++ {
							b = append(b, byte(i+1))
						}
					}
					switch after {
					case 1:
						b = append(b, 0x5b)
					case 2:
						b = append(b, 0x50)
					case 3:
						b = append(b, 0x5b, 0x5b, 0x50)
					}
					ps = append(ps, &Prog{Op: evmref.Name(op), Body: b, Data: []byte{1, 2, 3}, Tail: "return", Edge: true, Depth: d})
				}
			}
		}
	}
	return ps
}

// ---------------------------------------------------------------------------
// several hash-less initcodes inside one call tree

// initSpec describes an initcode: [create child first] header-jump, a region
// of JUMPDESTs / PUSH data, a landing pad, SSTORE of a marker, [create child],
// an ending, [child initcode as data].
type initSpec struct {
	jumpi      int // 0 JUMP, 1 JUMPI taken, 2 JUMPI not taken
	region     []byte
	target     int // offset in the region; -1 = the landing pad behind it
	marker     byte
	ending     int // 0 RETURN 3 bytes of code, 1 REVERT, 2 STOP (empty code), 3 INVALID
	child      *initSpec
	childFirst bool
}

const createSeqLen = 20

// createSeq: CODECOPY the blob at [off, off+n) of the running code to memory
// 0x40, CREATE it, SSTORE the result in slot 2.
func createSeq(off, n int) []byte {
	return []byte{0x61, byte(n >> 8), byte(n), 0x61, byte(off >> 8), byte(off), 0x60, 0x40, 0x39,
		0x61, byte(n >> 8), byte(n), 0x60, 0x40, 0x60, 0x00, 0xf0, 0x60, 0x02, 0x55}
}

func (s *initSpec) build() []byte {
	var blob []byte
	if s.child != nil {
		blob = s.child.build()
	}
	hdr := 4
	if s.jumpi != 0 {
		hdr = 6
	}
	pre := 0
	if s.child != nil && s.childFirst {
		pre = createSeqLen
	}
	endings := [][]byte{{0x60, s.marker, 0x60, 0x00, 0x53, 0x60, 0x03, 0x60, 0x00, 0xf3}, {0x60, 0x00, 0x60, 0x00, 0xfd}, {0x00}, {0xfe}}
	end := endings[s.ending]
	total := pre + hdr + len(s.region) + 1 + 5 + len(end)
	if s.child != nil && !s.childFirst {
		total += createSeqLen
	}
	var b []byte
	if pre > 0 {
		b = append(b, createSeq(total, len(blob))...)
	}
	t := pre + hdr + s.target
	if s.target < 0 {
		t = pre + hdr + len(s.region)
	}
	switch s.jumpi {
	case 1:
		b = append(b, 0x60, 0x01)
	case 2:
		b = append(b, 0x60, 0x00)
	}
	b = append(b, 0x61, byte(t>>8), byte(t))
	if s.jumpi != 0 {
		b = append(b, 0x57)
	} else {
		b = append(b, 0x56)
	}
	b = append(b, s.region...)
	b = append(b, 0x5b, 0x60, s.marker, 0x60, 0x01, 0x55)
	if s.child != nil && !s.childFirst {
		b = append(b, createSeq(total, len(blob))...)
	}
	b = append(b, end...)
	if len(b) != total {
		panic("initSpec.build: length bookkeeping")
	}
	return append(b, blob...)
}

// genRegion: whole units only (a JUMPDEST byte, a one-byte pusher, or PUSHn
// with data rich in 0x5b), so the byte after the region is an instruction.
func genRegion(rng *rand.Rand, n int) []byte {
	var reg []byte
	for len(reg) < n {
		if rng.Intn(2) == 0 {
			w := 1 + rng.Intn(32)
			if rng.Intn(3) == 0 {
				w = 1 + rng.Intn(4)
			}
			reg = append(reg, byte(0x5f+w))
			for i := 0; i < w; i++ {
				if rng.Intn(5) < 3 {
					reg = append(reg, 0x5b)
				} else {
					reg = append(reg, byte(rng.Intn(256)))
				}
			}
		} else {
			reg = append(reg, []byte{0x5b, 0x5b, 0x5b, 0x58, 0x59}[rng.Intn(5)])
		}
	}
	return reg
}

// pickTarget prefers bytes that look like JUMPDESTs (genuine or push data).
func pickTarget(rng *rand.Rand, reg []byte) int {
	if rng.Intn(8) == 0 {
		return -1
	}
	var cand []int
	for i, c := range reg {
		if c == 0x5b {
			cand = append(cand, i)
		}
	}
	if len(cand) == 0 || rng.Intn(12) == 0 {
		return rng.Intn(len(reg) + 1)
	}
	return cand[rng.Intn(len(cand))]
}

func genInit(rng *rand.Rand, level int) *initSpec {
	n := 4 + rng.Intn(60)
	if rng.Intn(4) == 0 {
		n = 4 + rng.Intn(200)
	}
	s := &initSpec{region: genRegion(rng, n), marker: byte(1 + rng.Intn(250))}
	s.target = pickTarget(rng, s.region)
	switch x := rng.Intn(10); {
	case x < 7:
	case x < 9:
		s.jumpi = 1
	default:
		s.jumpi = 2
	}
	switch x := rng.Intn(20); {
	case x < 16:
	case x < 17:
		s.ending = 1
	case x < 18:
		s.ending = 2
	default:
		s.ending = 3
	}
	if level < 3 && rng.Intn(3) == 0 {
		s.child = genInit(rng, level+1)
		s.childFirst = rng.Intn(2) == 0
	}
	return s
}

// createProg: a program (called contract, or the initcode of a top-level
// creation) that optionally jumps through a region of its own and then CREATEs
// the given initcodes one after the other; the addresses stay on the stack.
func createProg(top *initSpec, inits []*initSpec, mode string, tail string) *Prog {
	a := &asm{}
	if top != nil {
		t := 4 + top.target
		if top.target < 0 {
			t = 4 + len(top.region)
		}
		a.op(0x61, byte(t>>8), byte(t), 0x56)
		a.op(top.region...)
		a.op(0x5b)
	}
	var blob []byte
	for _, s := range inits {
		code := s.build()
		n := len(code)
		a.op(0x61, byte(n>>8), byte(n))
		a.pushLabel(labelCodeEnd, len(blob))
		a.op(0x60, 0x00, 0x39)
		a.op(0x61, byte(n>>8), byte(n), 0x60, 0x00, 0x60, 0x00, 0xf0)
		blob = append(blob, code...)
	}
	return &Prog{Body: a.finish(), Tail: tail, Mode: mode, Blob: blob, HiGas: true}
}

func fill5b(n int) []byte {
	b := make([]byte, n)
	for i := range b {
		b[i] = 0x5b
	}
	return b
}

// dataRegion: j JUMPDESTs, then PUSH32 units whose data is all 0x5b, n bytes in all.
func dataRegion(j, n int) []byte {
	r := fill5b(j)
	for len(r) < n {
		r = append(r, 0x7f)
		r = append(r, fill5b(32)...)
	}
	return r
}

// createFixed enumerates the interesting overlaps explicitly: the same offset is
// a genuine JUMPDEST in one initcode and PUSH data in another, in both orders,
// nested, and under a top-level creation; and a later initcode longer than an
// earlier one.
func createFixed() []*Prog {
	var ps []*Prog
	for _, mode := range []string{"", "create"} {
		for j := 0; j <= 9; j++ {
			for _, x := range []int{j + 1, j + 2, j + 9, j + 17, j + 32, j + 33, j + 34, j + 40, j + 66} {
				n := 80
				q := func() *initSpec { return &initSpec{region: fill5b(n), target: x, marker: 0x11} }           // x is a genuine JUMPDEST
				pOK := func() *initSpec { return &initSpec{region: dataRegion(j, n), target: -1, marker: 0x22} } // x is push data; jumps to the pad
				pBad := func() *initSpec { return &initSpec{region: dataRegion(j, n), target: x, marker: 0x33} } // jumps onto the push data
				if dataRegion(j, n)[x] != 0x5b || x-j == 0 || (x-j)%33 == 0 {
					continue // x must be a data byte of the PUSH32 units
				}
				var top *initSpec
				if mode == "create" {
					top = pOK()
				}
				ps = append(ps, createProg(top, []*initSpec{pOK(), q()}, mode, "return"))
				ps = append(ps, createProg(top, []*initSpec{q(), pBad()}, mode, "return"))
				ps = append(ps, createProg(top, []*initSpec{q(), pBad(), q(), pOK()}, mode, "return"))
				// nested, parent jumps first / child created first
				for _, cf := range []bool{false, true} {
					par := pOK()
					par.child, par.childFirst = q(), cf
					ps = append(ps, createProg(top, []*initSpec{par}, mode, "return"))
					par2 := q()
					par2.child, par2.childFirst = pBad(), cf
					ps = append(ps, createProg(top, []*initSpec{par2, q()}, mode, "return"))
				}
				if mode == "create" { // the top-level initcode's own region against an inner one
					ps = append(ps, createProg(pOK(), []*initSpec{q()}, mode, "return"))
					ps = append(ps, createProg(q(), []*initSpec{pBad()}, mode, "return"))
					ps = append(ps, createProg(q(), []*initSpec{pBad()}, mode, "revert"))
				}
			}
		}
		// a later initcode much longer than the first one
		for _, short := range []int{1, 8, 30} {
			for _, long := range []int{100, 300, 2000} {
				for _, x := range []int{long - 1, long / 2, short + 45} {
					var top *initSpec
					if mode == "create" {
						top = &initSpec{region: fill5b(short), target: 0}
					}
					ps = append(ps, createProg(top, []*initSpec{{region: fill5b(short), target: 0, marker: 1}, {region: fill5b(long), target: x, marker: 2}}, mode, "return"))
					ps = append(ps, createProg(top, []*initSpec{{region: fill5b(short), target: 0, marker: 1}, {region: dataRegion(3, long), target: x, marker: 2}}, mode, "return"))
				}
			}
		}
	}
	return ps
}

func genCreate(rng *rand.Rand) *Prog {
	mode := ""
	if rng.Intn(3) == 0 {
		mode = "create"
	}
	var top *initSpec
	if mode == "create" || rng.Intn(3) == 0 {
		top = &initSpec{region: genRegion(rng, 4+rng.Intn(60))}
		top.target = pickTarget(rng, top.region)
		if rng.Intn(3) != 0 { // mostly a valid jump, so that the creations below are reached
			top.target = -1
		}
	}
	k := 2 + rng.Intn(3)
	var inits []*initSpec
	for i := 0; i < k; i++ {
		inits = append(inits, genInit(rng, 1))
	}
	tail := "return"
	if rng.Intn(10) == 0 {
		tail = "revert"
	}
	return createProg(top, inits, mode, tail)
}

// ---------------------------------------------------------------------------
// return-data buffer: a call (mostly to the identity precompile) with a
// non-empty input area, then memory writes over and around that area, then
// RETURNDATASIZE / RETURNDATACOPY. The buffer must keep the bytes of call time.

var callKinds = []byte{0xf1, 0xf2, 0xf4, 0xfa}

// calleeInit wraps runtime code into an initcode that deploys it.
func calleeInit(runtime []byte) []byte {
	r := byte(len(runtime))
	return append([]byte{0x60, r, 0x60, 0x0c, 0x60, 0x00, 0x39, 0x60, r, 0x60, 0x00, 0xf3}, runtime...)
}

// emitCall pushes the operands (a callee address already on the stack is
// DUPed when addr == nil) and the call instruction.
func emitCall(a *asm, kind byte, addr *big.Int, inOff, inSize, outOff, outSize int) {
	a.pushInt(outSize)
	a.pushInt(outOff)
	a.pushInt(inSize)
	a.pushInt(inOff)
	n := 4
	if kind == 0xf1 || kind == 0xf2 {
		a.pushInt(0)
		n = 5
	}
	if addr == nil {
		a.op(byte(0x80 + n)) // DUP(n+1): the address below the operands
	} else {
		a.push(addr)
	}
	a.op(0x63, 0xff, 0xff, 0xff, 0xff) // gas operand: capped to 63/64 of what is left
	a.op(kind)
}

func genRetData(rng *rand.Rand, ft feat) *Prog {
	a := &asm{ft: ft}
	var blob []byte
	kind := callKinds[rng.Intn(4)]
	inOff, inSize := rng.Intn(130), 1+rng.Intn(96)
	if rng.Intn(20) == 0 {
		inSize = 0
	}
	rl := inSize // expected length of the return data
	var addr *big.Int
	switch x := rng.Intn(20); {
	case x < 12:
		addr = bi(4)
	case x < 14:
		addr, rl = bi(2), 32
	case x < 16:
		addr, rl = bi(3), 32
	case x < 17:
		addr, rl = fromHex("00000000000000000000000000dead00000000000000000000000000000000beef"), 0
		addr.Rsh(addr, 96)
	default: // an ordinary callee, created first
		echo := []byte{0x36, 0x60, 0x00, 0x60, 0x00, 0x37, 0x36, 0x60, 0x00}
		var rt []byte
		switch y := rng.Intn(6); y {
		case 0, 1:
			rt = append(echo, 0xf3)
		case 2:
			rt = append(append([]byte{0x7f}, evmref.Word32(randWord(rng))...), 0x60, 0x00, 0x52, 0x60, 0x28, 0x60, 0x00, 0xf3)
			rl = 40
		case 3:
			rt = append(echo, 0xfd)
		case 4:
			rt, rl = []byte{0xfe}, 0
		default: // writes storage: an exceptional halt under STATICCALL
			rt = append([]byte{0x60, 0x01, 0x60, 0x01, 0x55}, append(echo, 0xf3)...)
			if kind == 0xfa {
				rl = 0
			}
		}
		blob = calleeInit(rt)
		n := len(blob)
		a.pushInt(n)
		a.pushLabel(labelCodeEnd, 0)
		a.op(0x61, 0x03, 0x00, 0x39)
		a.pushInt(n)
		a.op(0x61, 0x03, 0x00, 0x60, 0x00, 0xf0) // the callee's address stays on the stack
	}
	l := 160 + 32*rng.Intn(4)
	a.pushInt(l)
	a.pushInt(0)
	a.pushInt(0)
	a.op(0x37) // memory[0,l) = pattern
	if rng.Intn(2) == 0 {
		a.pushInt(1)
		a.pushInt(0x600 + rng.Intn(0x800))
		a.op(0x53) // expand now, so that later writes do not move the memory
	}
	outOff, outSize := 0, 0
	if rng.Intn(2) == 0 { // an output area that does not overlap the input area
		outSize = 1 + rng.Intn(64)
		if inOff >= outSize && rng.Intn(2) == 0 {
			outOff = rng.Intn(inOff - outSize + 1)
		} else {
			outOff = inOff + inSize + rng.Intn(64)
		}
	}
	emitCall(a, kind, addr, inOff, inSize, outOff, outSize)
	if rng.Intn(2) == 0 {
		a.op(0x50)
	}
	near := func() int {
		o := inOff - 32 + rng.Intn(inSize+64)
		if o < 0 {
			o = 0
		}
		return o
	}
	for k := 1 + rng.Intn(5); k > 0; k-- {
		if rng.Intn(4) == 0 { // a memory expansion first
			a.pushInt(rng.Intn(256))
			a.pushInt(0x400 + rng.Intn(0x3000))
			a.op(0x53)
		}
		switch w := rng.Intn(5); {
		case w == 0:
			a.pushAny(rng, randWord(rng))
			a.pushInt(near())
			a.op(0x52)
		case w == 1:
			a.pushInt(rng.Intn(256))
			a.pushInt(near())
			a.op(0x53)
		case w == 2 && ft.mcopy:
			a.pushInt(1 + rng.Intn(64))
			a.pushInt(rng.Intn(0x300))
			a.pushInt(near())
			a.op(0x5e)
		case w == 3:
			a.pushInt(1 + rng.Intn(64))
			a.pushInt(rng.Intn(200))
			a.pushInt(near())
			a.op(0x39)
		default:
			a.pushInt(1 + rng.Intn(64))
			a.pushInt(rng.Intn(l))
			a.pushInt(near())
			a.op(0x37)
		}
	}
	a.op(0x3d) // RETURNDATASIZE stays on the stack
	copyOut := func(dst int) {
		switch v := rng.Intn(12); {
		case v < 6:
			a.pushInt(rl)
			a.pushInt(0)
		case v < 7:
			a.op(0x3d) // size = RETURNDATASIZE
			a.pushInt(0)
		case v < 8 && rl > 0:
			o := rng.Intn(rl)
			a.pushInt(rng.Intn(rl - o + 1))
			a.pushInt(o)
		case v < 9:
			a.pushInt(0)
			a.pushInt(rl) // empty copy at the very end: allowed
		case v < 10:
			if rng.Intn(2) == 0 {
				a.pushInt(1)
				a.pushInt(rl)
			} else {
				a.pushInt(rl + 1)
				a.pushInt(0)
			}
		case v < 11:
			a.pushInt(0)
			a.pushInt(rl + 1 + rng.Intn(3)) // empty copy past the end: exceptional halt
		default:
			a.pushInt(rng.Intn(2))
			a.push([]*big.Int{pow2(64), add(pow2(64), -1), wMax, pow2(255)}[rng.Intn(4)])
		}
		a.pushInt(dst)
		a.op(0x3e)
	}
	copyOut(0x200 + rng.Intn(64))
	if rng.Intn(3) == 0 {
		copyOut(0x2a0)
	}
	tail := "return"
	if rng.Intn(10) == 0 {
		tail = "revert"
	}
	return &Prog{Body: a.finish(), Data: patternData(288), Tail: tail, Blob: blob, HiGas: true}
}

// genOverlap: the output area of the call lies inside / across its input area.
// Recorded, not judged (the call opcodes are outside the property's opcode list).
func genOverlap(i int, rng *rand.Rand) *Prog {
	kind := callKinds[i%4]
	inOff, inSize := 0, 32
	outOff, outSize := 16, 32
	if i >= 4 {
		inOff, inSize = rng.Intn(64), 2+rng.Intn(96)
		outOff = inOff + 1 + rng.Intn(inSize-1)
		if rng.Intn(3) == 0 && inOff > 0 {
			outOff = inOff - 1 - rng.Intn(inOff)
		}
		outSize = 1 + rng.Intn(96)
	}
	a := &asm{}
	a.pushInt(192)
	a.pushInt(0)
	a.pushInt(0)
	a.op(0x37)
	emitCall(a, kind, bi(4), inOff, inSize, outOff, outSize)
	a.op(0x3d)
	a.pushInt(0)
	a.pushInt(0x200)
	a.op(0x3e) // RETURNDATACOPY(0x200, 0, RETURNDATASIZE)
	return &Prog{Body: a.finish(), Data: patternData(192), Tail: "return", HiGas: true, Record: true, Op: evmref.Name(kind),
		Note: "identity precompile, in=[" + itoa3(inOff) + "," + itoa3(inOff+inSize) + ") out=[" + itoa3(outOff) + "," + itoa3(outOff+outSize) + ")"}
}

func itoa3(x int) string {
	if x == 0 {
		return "0"
	}
	s := ""
	for ; x > 0; x /= 10 {
		s = string([]byte{byte('0' + x%10)}) + s
	}
	return s
}

// ---------------------------------------------------------------------------

func families(r *mon.Run, cfgName string, ft feat, defined [256]bool) []family {
	var fams []family
	scale := 1
	if cfgName != "default" {
		scale = 8 // the pre-022 configuration runs a reduced workload on fewer children
	}
	rnd := func(name string, i int) *rand.Rand { return r.Rand(cfgName, name, i) }

	if cfgName == "default" {
		vecs := loadVectors(r)
		fams = append(fams, family{"vec", len(vecs), func(i int) *Prog {
			v := vecs[i]
			p := opCase(v.op, true, new(big.Int).SetBytes(v.y), new(big.Int).SetBytes(v.x))
			p.Want = v.e
			// self-check of the reference's word function, independent of any program
			if got := evmref.Binary(v.op, new(big.Int).SetBytes(v.y), new(big.Int).SetBytes(v.x)); got.Cmp(new(big.Int).SetBytes(v.e)) != 0 {
				r.Count("ref_selfcheck_failures", 1)
			}
			return p
		}})

		g := len(grid2)
		fams = append(fams, family{"grid1", len(unaryOps) * g, func(i int) *Prog {
			return opCase(unaryOps[i/g], i%2 == 0, grid2[i%g])
		}})
		fams = append(fams, family{"grid2", len(binaryOps) * g * g, func(i int) *Prog {
			op := binaryOps[i/(g*g)]
			return opCase(op, i%2 == 0, grid2[(i/g)%g], grid2[i%g])
		}})
		g3 := len(grid3)
		fams = append(fams, family{"grid3", len(ternaryOps) * g3 * g3 * g3, func(i int) *Prog {
			op := ternaryOps[i/(g3*g3*g3)]
			return opCase(op, i%2 == 0, grid3[(i/(g3*g3))%g3], grid3[(i/g3)%g3], grid3[i%g3])
		}})
		nr := r.Pick(1500, 100000)
		fams = append(fams, family{"grid2r", len(binaryOps) * nr, func(i int) *Prog {
			rng := rnd("grid2r", i)
			op := binaryOps[i%len(binaryOps)]
			x, y := randWord(rng), randWord(rng)
			if rng.Intn(3) == 0 && (op == 0x0b || op >= 0x1a) { // index / shift operands near their edges
				x = bi(int64(rng.Intn(300)))
			}
			if op == 0x0a && rng.Intn(2) == 0 {
				x, y = randWord(rng), bi(int64(rng.Intn(300))) // base ** small exponent
			}
			return opCase(op, rng.Intn(2) == 0, x, y)
		}})
		fams = append(fams, family{"grid3r", len(ternaryOps) * nr * 2, func(i int) *Prog {
			rng := rnd("grid3r", i)
			return opCase(ternaryOps[i%2], rng.Intn(2) == 0, randWord(rng), randWord(rng), randWord(rng))
		}})
		fams = append(fams, family{"grid1r", len(unaryOps) * nr / 4, func(i int) *Prog {
			rng := rnd("grid1r", i)
			return opCase(unaryOps[i%2], rng.Intn(2) == 0, randWord(rng))
		}})

		jm := jumpMapCases()
		bc := bigCodeCases()
		fams = append(fams, family{"jumpmap", len(jm) + len(bc), func(i int) *Prog {
			if i >= len(jm) {
				return bc[i-len(jm)]
			}
			return jm[i].prog()
		}})
		st := stackCases(ft)
		fams = append(fams, family{"stack", len(st), func(i int) *Prog { return st[i] }})
	}
	ec := edgeCases(defined)
	fams = append(fams, family{"edge", len(ec), func(i int) *Prog { return ec[i] }})
	cf := createFixed()
	fams = append(fams, family{"create", len(cf) + r.Pick(60000, 2500000)/scale, func(i int) *Prog {
		if i < len(cf) {
			return cf[i]
		}
		return genCreate(rnd("create", i))
	}})
	fams = append(fams, family{"retdata", r.Pick(70000, 3000000) / scale, func(i int) *Prog { return genRetData(rnd("retdata", i), ft) }})
	fams = append(fams, family{"overlap", r.Pick(2000, 40000) / scale, func(i int) *Prog { return genOverlap(i, rnd("overlap", i)) }})
	mc := memCases(ft)
	fams = append(fams, family{"mem", len(mc), func(i int) *Prog { return mc[i].prog() }})
	tc := termCases(ft)
	fams = append(fams, family{"term", len(tc), func(i int) *Prog { return tc[i] }})

	fams = append(fams, family{"line", r.Pick(400000, 20000000) / scale, func(i int) *Prog { return genLine(rnd("line", i), ft, lineOpts{}) }})
	fams = append(fams, family{"memline", r.Pick(120000, 5000000) / scale, func(i int) *Prog { return genLine(rnd("memline", i), ft, lineOpts{memBias: true}) }})
	fams = append(fams, family{"branch", r.Pick(180000, 9000000) / scale, func(i int) *Prog { return genBranch(rnd("branch", i), ft) }})
	fams = append(fams, family{"maze", r.Pick(80000, 4000000) / scale, func(i int) *Prog { return genMaze(rnd("maze", i), ft) }})
	return fams
}
