// C10 — EVM computational opcodes implement the Ethereum specification.
//
// Monitor: differential execution. Every generated program is deployed into an
// in-memory AccountDB and run by the REAL interpreter (vm.NewEVMWithNFT + Call,
// default fork schedule, plenty of gas) and by the independent reference
// interpreter ref/evmref (math/big, own jumpdest analysis). Each program ends in
// a fixed-length epilogue that stores MSIZE and the top <=32 stack items behind
// the program's memory and RETURNs (or REVERTs) memory[0,end). Compared: outcome
// class (success / revert / exceptional halt), return data, and — through
// vm.VerifStepHook — the whole (pc, opcode, stack length, memory length) trace.
// Gas is not compared.
//
// Process model: the supervisor starts one child per shard; a child owns its
// AccountDB / EVM instances and is single threaded (the step hook is global).
package main

import (
	"bytes"
	"encoding/json"
	"fmt"
	"math/big"
	"os"
	"runtime"
	"sort"
	"strconv"
	"strings"
	"time"

	"com.tuntun.rangers/node/src/common"
	"com.tuntun.rangers/node/src/middleware/db"
	"com.tuntun.rangers/node/src/storage/account"
	"com.tuntun.rangers/node/src/vm"

	"verifharness/env"
	"verifharness/mon"
	"verifharness/ref/evmref"
)

const (
	gasSupply = uint64(100000000000) // 1e11: see Assumptions in Finish
	memSoft   = 256 << 10            // programs touching more memory are not judged ...
	memHard   = 1 << 28              // ... unless they ask for >= 256 MiB: quadratic memory gas alone (w^2/512, w = 2^23 words) exceeds 1e11
	maxSteps  = 20000
	epiLen    = 180
	epiSlack  = 2048

	// programs that CREATE: every child that halts exceptionally burns 63/64 of the
	// gas left, so they get 1e15 gas (at most 4 such children are judged); then only
	// a request for >= 32 GiB of memory is certainly out of gas (w^2/512 > 1e15).
	gasSupplyHi = uint64(1000000000000000)
	memHardHi   = 1 << 35
	maxFailedCh = 4
)

// Prog is one case (and the witness of a violation).
type Prog struct {
	Cfg      string  `json:"cfg"`    // fork configuration: "default" | "pre022"
	Family   string  `json:"family"` // generator family
	Index    int     `json:"index"`
	Op       string  `json:"op,omitempty"` // opcode under test for single-opcode cases
	Body     mon.Hex `json:"body"`
	Data     mon.Hex `json:"calldata"`
	Tail     string  `json:"tail"`               // "return" | "revert" (epilogue flavour) | "none"
	Straight bool    `json:"straight,omitempty"` // body is straight-line code: prefixes can be run to localise a mismatch
	Want     mon.Hex `json:"want,omitempty"`     // vector cases: expected top-of-stack word
	Note     string  `json:"note,omitempty"`
	Mode     string  `json:"mode,omitempty"`   // "" = deployed and called; "create" = run as the initcode of a top-level creation
	Blob     mon.Hex `json:"blob,omitempty"`   // bytes appended after the epilogue (initcodes read with CODECOPY)
	HiGas    bool    `json:"higas,omitempty"`  // CREATE family: 1e15 gas
	Edge     bool    `json:"edge,omitempty"`   // stack-boundary case: when the reference leaves its scope, the real run must still not report a stack fault
	Depth    int     `json:"depth,omitempty"`  // stack-boundary case: stack depth at which Op is offered
	Record   bool    `json:"record,omitempty"` // recorded, not judged (overlapping call areas)
}

// epilogue builds the fixed-length observation epilogue for a frame that
// arrives with d stack items and msize bytes of memory.
func epilogue(d, msize int, revert bool) []byte {
	e := make([]byte, 0, epiLen)
	e = append(e, 0x5b)
	for ; d > 1022; d-- { // room for the two pushes below
		e = append(e, 0x50)
	}
	k := d
	if k > 32 {
		k = 32
	}
	push3 := func(v int) { e = append(e, 0x62, byte(v>>16), byte(v>>8), byte(v)) }
	e = append(e, 0x59) // MSIZE
	push3(msize)
	e = append(e, 0x52) // MSTORE  mem[msize] = MSIZE
	for i := 1; i <= k; i++ {
		push3(msize + 32*i)
		e = append(e, 0x52) // mem[msize+32i] = i-th stack item from the top
	}
	push3(msize + 32*(k+1))
	e = append(e, 0x60, 0x00)
	if revert {
		e = append(e, 0xfd)
	} else {
		e = append(e, 0xf3)
	}
	for len(e) < epiLen {
		e = append(e, 0x00)
	}
	return e
}

type realOut struct {
	class   evmref.Class
	ret     []byte
	err     error
	aborted bool
	newAddr common.Address
	state   string // first difference between the real state and the reference's final world ("" = none)
}

type harness struct {
	r       *mon.Run
	cfgName string
	cfg     evmref.Config
	adb     *account.AccountDB
	nRun    int
	ctx     vm.Context
	caller  vm.AccountRef
	addr    common.Address

	defined [256]bool // real jump table (probed)

	trace   []evmref.Step
	aborted bool
	curEVM  *vm.EVM
	hist    [256]int64 // real: instructions offered to the interpreter loop (top frame)
	refHist [256]int64 // reference: instructions completed, in runs that agreed with the real EVM

	evals        int64
	shard        int
	noted        bool
	distinctSeen int
	scratch      string
}

func forksFor(cfgName string) env.Forks {
	if cfgName == "pre022" {
		return env.Forks{Override: map[int]uint64{22: 1 << 60}}
	}
	return env.Forks{}
}

func boot(r *mon.Run, cfgName string) *harness {
	h := &harness{r: r, cfgName: cfgName}
	h.scratch = env.ScratchDir("verif-c10-")
	env.BootServices(forksFor(cfgName))
	common.SetBlockHeight(10)
	h.ctx = vm.Context{
		CanTransfer: vm.CanTransfer, Transfer: vm.Transfer,
		GetHash:     func(uint64) common.Hash { return common.Hash{} },
		Origin:      common.HexToAddress("0x00000000000000000000000000000000000000c1"),
		GasPrice:    big.NewInt(1),
		Coinbase:    common.HexToAddress("0x00000000000000000000000000000000000000c2"),
		GasLimit:    gasSupply,
		BlockNumber: big.NewInt(10),
		Time:        big.NewInt(1700000000),
		Difficulty:  big.NewInt(123),
	}
	h.caller = vm.AccountRef(h.ctx.Origin)
	h.addr = common.HexToAddress("0x00000000000000000000000000000000c0de0010")
	h.newDB()
	vm.VerifStepHook = func(depth int, pc uint64, op byte, gas uint64, stackLen int, memLen int, readOnly bool) {
		h.hist[op]++
		if len(h.trace) < maxSteps+64 {
			h.trace = append(h.trace, evmref.Step{Depth: depth, PC: pc, Op: op, StackLen: stackLen, MemLen: memLen})
		} else if !h.aborted {
			h.aborted = true
			if h.curEVM != nil {
				h.curEVM.Cancel()
			}
		}
	}
	h.probe()
	h.cfg = evmref.Config{Push0: h.defined[0x5f], Mcopy: h.defined[0x5e],
		MemSoft: memSoft + epiSlack, MemHard: memHard, MaxSteps: maxSteps, Trace: true,
		Self: evmref.Address(h.addr), Origin: evmref.Address(h.ctx.Origin)}
	return h
}

func (h *harness) newDB() {
	mem, _ := db.NewMemDatabase()
	adb, err := account.NewAccountDB(common.Hash{}, account.NewDatabase(mem))
	if err != nil {
		panic(err)
	}
	h.adb = adb
	h.nRun = 0
}

func (h *harness) cleanup() {
	if strings.Contains(h.scratch, "verif-c10-") {
		os.Chdir("/")
		os.RemoveAll(h.scratch)
	}
}

// runReal executes code on the real EVM: deployed at h.addr and called, or
// (create) as the initcode of a creation sent by the origin. Before the state
// is rolled back it is compared with the reference's final world, if given.
func (h *harness) runReal(code, data []byte, p *Prog, ref *evmref.Result) realOut {
	if h.nRun >= 4000 {
		h.newDB()
	}
	h.nRun++
	h.trace = h.trace[:0]
	h.aborted = false
	gas := gasSupply
	create := false
	if p != nil {
		create = p.Mode == "create"
		if p.HiGas {
			gas = gasSupplyHi
		}
	}
	snap := h.adb.Snapshot()
	evm := vm.NewEVMWithNFT(h.ctx, h.adb, h.adb)
	h.curEVM = evm
	var ret []byte
	var err error
	var out realOut
	if create {
		ret, out.newAddr, _, _, err = evm.Create(h.caller, code, gas, new(big.Int))
	} else {
		h.adb.SetCode(h.addr, code)
		ret, _, _, err = evm.Call(h.caller, h.addr, data, gas, new(big.Int))
	}
	h.curEVM = nil
	out.err, out.aborted = err, h.aborted
	switch {
	case err == nil:
		out.class = evmref.Success
	case err == vm.ErrExecutionReverted:
		out.class = evmref.Revert
	default:
		out.class = evmref.Fail
	}
	out.ret = append([]byte{}, ret...) // on an exceptional halt of a call it must be empty; compared
	if ref != nil && ref.World != nil {
		out.state = h.stateDiff(ref)
	}
	h.adb.RevertToSnapshot(snap)
	return out
}

// stateDiff compares code, nonce and every storage slot the reference ever
// wrote, for the program's account, the origin and every creation target.
func (h *harness) stateDiff(ref *evmref.Result) string {
	addrs := append([]evmref.Address{evmref.Address(h.addr), evmref.Address(h.ctx.Origin)}, ref.Created...)
	seen := map[evmref.Address]bool{}
	for _, a := range addrs {
		if seen[a] {
			continue
		}
		seen[a] = true
		want := ref.World.Acc[a]
		if want == nil {
			want = &evmref.Account{}
		}
		ca := common.Address(a)
		if got := h.adb.GetCode(ca); !sameBytes(got, want.Code) {
			return fmt.Sprintf("code of %x: reference %x, real %x", a[:], clip(want.Code, 64), clip(got, 64))
		}
		if got := h.adb.GetNonce(ca); got != want.Nonce {
			return fmt.Sprintf("nonce of %x: reference %d, real %d", a[:], want.Nonce, got)
		}
		for k := range ref.Touched[a] {
			w := new(big.Int)
			if v := want.Storage[k]; v != nil {
				w = v
			}
			got := h.adb.GetState(ca, common.Hash(k))
			if !bytes.Equal(got.Bytes(), evmref.Word32(w)) {
				return fmt.Sprintf("storage of %x slot %x: reference %x, real %x", a[:], k[:], evmref.Word32(w), got.Bytes())
			}
		}
	}
	return ""
}

// probe finds out which opcodes the real jump table defines: a one-byte
// program fails with *vm.ErrInvalidOpCode exactly when the slot is empty.
func (h *harness) probe() {
	n := 0
	for op := 0; op < 256; op++ {
		out := h.runReal([]byte{byte(op)}, nil, nil, nil)
		_, undefined := out.err.(*vm.ErrInvalidOpCode)
		h.defined[op] = !undefined
		if !undefined {
			n++
		}
	}
	for i := range h.hist {
		h.hist[i] = 0
	}
	h.r.Max("max_table_defined_"+h.cfgName, int64(n))
	var missing, extra []string
	for op := 0; op < 256; op++ {
		b := byte(op)
		switch {
		case evmref.InSet(b) && b != 0xfe && b != 0x5f && b != 0x5e && !h.defined[op]:
			missing = append(missing, evmref.Name(b))
		case evmref.NeverAssigned(b) && h.defined[op]:
			extra = append(extra, evmref.Name(b))
		}
	}
	if len(missing) > 0 {
		h.r.Note("cfg %s: opcodes of the computational set missing from the real jump table: %v", h.cfgName, missing)
	}
	if len(extra) > 0 {
		h.r.Note("cfg %s: real jump table defines bytes unassigned in Ethereum: %v (not generated as 'undefined')", h.cfgName, extra)
	}
}

// refCfg is the reference configuration for one program.
func (h *harness) refCfg(p *Prog) *evmref.Config {
	c := h.cfg
	if p.HiGas {
		c.MemHard = memHardHi
	}
	return &c
}

func runRef(p *Prog, code []byte, cfg *evmref.Config) *evmref.Result {
	if p.Mode == "create" {
		return evmref.RunCreate(code, cfg)
	}
	return evmref.Run(code, p.Data, cfg)
}

// assemble appends the epilogue that fits the state in which the reference
// reaches it (fix-point: CODECOPY can read epilogue bytes), then the blob.
func (h *harness) assemble(p *Prog) ([]byte, *evmref.Result, bool) {
	cfg := h.refCfg(p)
	if p.Tail == "none" {
		code := append(append([]byte{}, p.Body...), p.Blob...)
		return code, runRef(p, code, cfg), true
	}
	entry := uint64(len(p.Body))
	d, ms := 0, 0
	for iter := 0; iter < 6; iter++ {
		code := make([]byte, 0, len(p.Body)+epiLen+len(p.Blob))
		code = append(code, p.Body...)
		code = append(code, epilogue(d, ms, p.Tail == "revert")...)
		code = append(code, p.Blob...)
		res := runRef(p, code, cfg)
		found := false
		nd, nms := 0, 0
		for i := range res.Trace {
			if res.Trace[i].PC == entry && res.Trace[i].Depth == 1 {
				found, nd, nms = true, res.Trace[i].StackLen, res.Trace[i].MemLen
				break
			}
		}
		if !found || (nd == d && nms == ms) {
			if found && ms > memSoft {
				res.Class, res.Reason = evmref.Gray, "memory-gray-zone"
			}
			return code, res, true
		}
		d, ms = nd, nms
	}
	return nil, nil, false
}

type verdict struct {
	skipped  bool
	mismatch bool
	code     []byte
	ref      *evmref.Result
	real     realOut
	diffStep int // first differing trace index, -1 if traces agree
	what     string
	rtrace   []evmref.Step // copy of the real trace (mismatches only)
}

func sameBytes(a, b []byte) bool { return len(a) == len(b) && bytes.Equal(a, b) }

// compare runs both interpreters on p.
func (h *harness) compare(p *Prog) verdict {
	var v verdict
	v.diffStep = -1
	code, ref, ok := h.assemble(p)
	if !ok {
		h.r.Count("skipped_epilogue_no_fixpoint", 1)
		v.skipped = true
		return v
	}
	v.code, v.ref = code, ref
	edgeOnly := false
	switch {
	case ref.Class == evmref.Gray:
		h.r.Count("skipped_gray:"+ref.Reason, 1)
		v.skipped = true
		return v
	case ref.Class == evmref.OutOfScope && p.Edge:
		edgeOnly = true // judge the stack validation and the trace up to the point where the reference stops
	case ref.Class == evmref.OutOfScope:
		h.r.Count("skipped_out_of_scope", 1)
		v.skipped = true
		return v
	case ref.FailedChildren > maxFailedCh:
		h.r.Count("skipped_gray:create-gas", 1)
		v.skipped = true
		return v
	}
	if len(code) == 0 {
		v.skipped = true
		return v
	}
	if edgeOnly {
		v.real = h.runReal(code, p.Data, p, nil)
	} else {
		v.real = h.runReal(code, p.Data, p, ref)
	}
	real := v.real
	n := len(ref.Trace)
	if len(h.trace) < n {
		n = len(h.trace)
	}
	for i := 0; i < n; i++ {
		if ref.Trace[i] != h.trace[i] {
			v.diffStep = i
			break
		}
	}
	if edgeOnly {
		_, under := real.err.(*vm.ErrStackUnderflow)
		_, over := real.err.(*vm.ErrStackOverflow)
		switch {
		case v.diffStep >= 0 || len(h.trace) < len(ref.Trace):
			if v.diffStep < 0 {
				v.diffStep = n
			}
			v.mismatch = true
			v.what = "the real run leaves the reference's trace before the reference leaves its scope"
		case (under || over) && len(h.trace) == len(ref.Trace):
			v.mismatch = true
			v.diffStep = n
			v.what = fmt.Sprintf("%s offered with %d stack items: the specification's stack check passes, the real EVM reports %v", evmref.Name(ref.LastOp), ref.Trace[len(ref.Trace)-1].StackLen, real.err)
		}
		if v.mismatch && v.diffStep >= 0 && v.diffStep < n {
			v.what += fmt.Sprintf("; traces diverge at step %d: reference %s, real %s", v.diffStep, stepStr(ref.Trace, v.diffStep), stepStr(h.trace, v.diffStep))
		}
		if v.mismatch {
			v.rtrace = append([]evmref.Step{}, h.trace...)
		}
		return v
	}
	if v.diffStep < 0 && len(ref.Trace) != len(h.trace) {
		v.diffStep = n
	}
	switch {
	case real.class != ref.Class:
		v.mismatch = true
		v.what = fmt.Sprintf("outcome: reference %s (%s), real %s (err=%v)", ref.Class, ref.Reason, real.class, real.err)
	case !sameBytes(real.ret, ref.Ret) && !(p.Mode == "create" && ref.Class == evmref.Fail):
		v.mismatch = true
		v.what = "return data (memory + stack dump) differs: " + describeDiff(ref.Ret, real.ret)
	case p.Mode == "create" && ref.Class == evmref.Success && evmref.Address(real.newAddr) != ref.NewAddress:
		v.mismatch = true
		v.what = fmt.Sprintf("address of the new contract: reference %x, real %x", ref.NewAddress[:], real.newAddr[:])
	case real.state != "":
		v.mismatch = true
		v.what = "final state differs: " + real.state
	case v.diffStep >= 0:
		v.mismatch = true
		v.what = "outcome class, return data and state agree"
	}
	if v.mismatch && v.diffStep >= 0 {
		v.what += fmt.Sprintf("; traces diverge at step %d: reference %s, real %s", v.diffStep, stepStr(ref.Trace, v.diffStep), stepStr(h.trace, v.diffStep))
	}
	if v.mismatch {
		v.rtrace = append([]evmref.Step{}, h.trace...)
	}
	return v
}

func stepStr(t []evmref.Step, i int) string {
	if i >= len(t) {
		return "(ended)"
	}
	s := t[i]
	return fmt.Sprintf("{depth=%d pc=%d op=%s stack=%d mem=%d}", s.Depth, s.PC, evmref.Name(s.Op), s.StackLen, s.MemLen)
}

func describeDiff(want, got []byte) string {
	if len(want) != len(got) {
		return fmt.Sprintf("length %d (reference) vs %d (real)", len(want), len(got))
	}
	for i := range want {
		if want[i] != got[i] {
			w := i / 32 * 32
			e := w + 32
			if e > len(want) {
				e = len(want)
			}
			return fmt.Sprintf("first difference at byte %d of %d: word@%d reference %x real %x", i, len(want), w, want[w:e], got[w:e])
		}
	}
	return "equal"
}

// instrEnds lists the end offsets of the instructions of straight-line code.
func instrEnds(body []byte) (ends []int, opsAt []byte) {
	for i := 0; i < len(body); {
		b := body[i]
		n := 1
		if b >= 0x60 && b <= 0x7f {
			n += int(b - 0x5f)
		}
		i += n
		if i > len(body) {
			i = len(body)
		}
		ends = append(ends, i)
		opsAt = append(opsAt, b)
	}
	return
}

func clip(b []byte, n int) mon.Hex {
	if len(b) > n {
		return mon.Hex(b[:n])
	}
	return mon.Hex(b)
}

// runCase judges one program and reports a violation with a classified signature.
func (h *harness) runCase(p *Prog) {
	r := h.r
	if r.IsChild() {
		if b, err := json.Marshal(p); err == nil {
			r.CaseBegin(b)
		}
	}
	var v verdict
	if r.Guard("C10:"+p.Family, p, func() { v = h.compare(p) }) {
		h.newDB() // the panic skipped the rollback: start the next case from a clean state
		h.curEVM = nil
		return
	}
	if v.skipped {
		return
	}
	if p.Record { // facts only: no verdict
		if !v.mismatch {
			r.Count("recorded:overlapping_call_areas:agrees_with_reference", 1)
			return
		}
		r.Count("recorded:overlapping_call_areas:differs_from_reference", 1)
		if v.real.class == v.ref.Class && v.diffStep < 0 && v.real.state == "" {
			r.Count("recorded:overlapping_call_areas:only_return_data_copy_differs", 1)
		}
		if h.shard == 0 && !h.noted && h.cfgName == "default" && len(v.ref.Ret) >= 0x200+32 && len(v.real.ret) == len(v.ref.Ret) {
			h.noted = true
			n := len(v.ref.Ret) - 64 - 0x200 // memory [0x200, msize) holds the RETURNDATACOPY result
			if n > 64 {
				n = 64
			}
			r.Note("RECORDED (not judged) %s %s: program %x (+ dump epilogue), calldata byte i = 7i+1 mod 256 (%d bytes): RETURNDATACOPY of the whole buffer gives %x, the input bytes at call time were %x; memory[0,64) after the call: real %x reference %x",
				p.Op, p.Note, []byte(p.Body), len(p.Data), v.real.ret[0x200:0x200+n], v.ref.Ret[0x200:0x200+n], v.real.ret[:64], v.ref.Ret[:64])
		}
		return
	}
	h.evals++
	r.Count("programs:"+p.Family, 1)
	r.Count("outcome:"+v.ref.Class.String(), 1)
	if v.ref.Class == evmref.Fail {
		r.Count("fail_reason:"+v.ref.Reason, 1)
	}
	if p.Edge {
		r.Count("edge_evaluations", 1)
		r.Distinct("edge_pair", []byte(p.Cfg), []byte(p.Op), []byte(strconv.Itoa(p.Depth)))
	}
	if v.ref.MaxDepth > 1 {
		r.Count("programs_with_inner_frames", 1)
		r.Count("inner_creations", int64(len(v.ref.Created)))
	}

	// vector cases: both interpreters against the repository's geth vectors
	if len(p.Want) == 32 && v.ref.Class == evmref.Success {
		r.Count("vector_checks", 1)
		if len(v.ref.Ret) < 64 || !bytes.Equal(v.ref.Ret[32:64], p.Want) {
			r.Count("ref_selfcheck_failures", 1)
			r.Note("reference disagrees with vector %s #%d", p.Op, p.Index)
		}
		if len(v.real.ret) < 64 || !bytes.Equal(v.real.ret[32:64], p.Want) {
			got := []byte{}
			if len(v.real.ret) >= 64 {
				got = v.real.ret[32:64]
			}
			r.Violation("C10:"+p.Op+":vector-mismatch", fmt.Sprintf("%s vector #%d: expected %x, real EVM produced %x", p.Op, p.Index, []byte(p.Want), got), p)
		}
	}

	if !v.mismatch {
		for op, n := range v.ref.Hist {
			if n != 0 {
				h.refHist[op] += int64(n)
			}
		}
		if v.ref.Steps >= 3 && (v.ref.Class == evmref.Success || v.ref.Class == evmref.Revert) {
			r.Count("nontrivial_programs", 1)
			if h.distinctSeen < 150000 {
				h.distinctSeen++
				r.Distinct("prog", v.code, p.Data)
			}
		}
		if v.ref.Class == evmref.Fail && v.ref.Reason == "bad-jump" {
			r.Count("bad_jump_programs", 1)
		}
		return
	}

	// ---- classify the mismatch
	sig := ""
	wit := p
	what := v.what
	switch {
	case p.Edge && p.Op != "":
		sig = "C10:" + p.Op + ":stack-boundary-mismatch"
	case p.Op != "":
		sig = "C10:" + p.Op + ":result-mismatch"
	case v.ref.Reason == "bad-jump" && v.real.class != evmref.Fail:
		sig = "C10:jump:invalid-destination-accepted"
	case v.real.err == vm.ErrInvalidJump && v.ref.Reason != "bad-jump":
		sig = "C10:jump:valid-destination-rejected"
	case p.Family == "retdata" && v.real.class == v.ref.Class && v.diffStep < 0:
		sig = "C10:RETURNDATACOPY:result-mismatch" // same path, same sizes: only the copied bytes differ
	}
	if sig == "" && p.Straight {
		// localise: shortest instruction prefix that already disagrees
		ends, opsAt := instrEnds(p.Body)
		for j, e := range ends {
			q := *p
			q.Tail = "return"
			q.Note = "shortest disagreeing prefix of " + p.Family + "#" + strconv.Itoa(p.Index)
			// keep the code length and all other bytes (CODESIZE / CODECOPY see them):
			// overwrite the 4 bytes after the prefix with PUSH2 <epilogue> JUMP; fall
			// back to truncation when the dead suffix would hide the epilogue's JUMPDEST.
			q.Body = nil
			if e+4 <= len(p.Body) {
				b := append(mon.Hex{}, p.Body...)
				b[e], b[e+1], b[e+2], b[e+3] = 0x61, byte(len(b)>>8), byte(len(b)), 0x56
				if jd := evmref.JumpDests(append(append([]byte{}, b...), 0x5b)); jd[len(b)] {
					q.Body = b
				}
			}
			if q.Body == nil {
				q.Body = append(mon.Hex{}, p.Body[:e]...)
			}
			var qv verdict
			if r.Guard("C10:"+p.Family, &q, func() { qv = h.compare(&q) }) {
				h.newDB()
				h.curEVM = nil
				return
			}
			if !qv.skipped && qv.mismatch {
				sig = "C10:" + evmref.Name(opsAt[j]) + ":result-mismatch"
				wit, what, v = &q, qv.what, qv
				break
			}
		}
	}
	if sig == "" && v.diffStep > 0 && v.diffStep <= len(v.ref.Trace) {
		prev := v.ref.Trace[v.diffStep-1]
		if prev.Op == 0x56 || prev.Op == 0x57 { // did the jump land, in either run?
			landed := func(t []evmref.Step) bool {
				return v.diffStep < len(t) && t[v.diffStep].Depth == prev.Depth && t[v.diffStep].Op == 0x5b
			}
			switch ra, xa := landed(v.ref.Trace), landed(v.rtrace); {
			case ra && !xa:
				sig = "C10:jump:valid-destination-rejected"
			case !ra && xa:
				sig = "C10:jump:invalid-destination-accepted"
			}
			if sig != "" && prev.Depth > 1 {
				sig += ":in-initcode"
			}
		}
		if sig == "" {
			sig = "C10:" + evmref.Name(prev.Op) + ":state-divergence"
		}
	}
	if sig == "" {
		sig = "C10:program:" + p.Family + ":result-mismatch"
	}
	r.Count("mismatching_evaluations:"+sig, 1)
	r.Violation(sig, what, map[string]interface{}{
		"case": wit, "code": mon.Hex(v.code), "reference_class": v.ref.Class.String(), "reference_reason": v.ref.Reason,
		"real_class": v.real.class.String(), "real_err": fmt.Sprint(v.real.err),
		"reference_ret": clip(v.ref.Ret, 4096), "real_ret": clip(v.real.ret, 4096)})
}

// ---------------------------------------------------------------------------

var sampleFams = map[string]bool{"vec": true, "grid2": true, "jumpmap": true, "mem": true, "branch": true, "create": true}

func childMain(r *mon.Run, args []string) {
	if len(args) < 3 {
		fmt.Println("MACHINERY: child needs <cfg> <shard> <nshards>")
		os.Exit(2)
	}
	cfgName := args[0]
	shard, _ := strconv.Atoi(args[1])
	nshards, _ := strconv.Atoi(args[2])
	h := boot(r, cfgName)
	h.shard = shard
	ft := feat{push0: h.cfg.Push0, mcopy: h.cfg.Mcopy}
	fams := families(r, cfgName, ft, h.defined)
	sampled := 0
	for _, f := range fams {
		for i := shard; i < f.n; i += nshards {
			p := f.mk(i)
			if p == nil {
				continue
			}
			p.Cfg, p.Family, p.Index = cfgName, f.name, i
			h.runCase(p)
			if shard == 0 && cfgName == "default" && i == shard+nshards && sampled < 6 && sampleFams[f.name] {
				sampled++
				r.Sample(p)
			}
		}
		r.Count("cases_offered:"+f.name, int64((f.n-shard+nshards-1)/nshards))
	}
	for op := 0; op < 256; op++ {
		if h.hist[op] > 0 {
			r.Count("exec:"+evmref.Name(byte(op)), h.hist[op])
		}
		if h.refHist[op] > 0 {
			r.Count("refexec:"+evmref.Name(byte(op)), h.refHist[op])
		}
	}
	if cfgName == "default" {
		for op := 0; op < 256; op++ {
			if h.defined[op] && evmref.InSet(byte(op)) {
				r.Max("max_defined:"+evmref.Name(byte(op)), 1)
			}
		}
	}
	h.cleanup()
	r.Finish(mon.Coverage{Evaluations: h.evals})
}

func replay(r *mon.Run, path string) {
	v, err := mon.LoadReplay(path)
	if err != nil {
		fmt.Println("MACHINERY:", err)
		os.Exit(2)
	}
	var w struct {
		Case *Prog `json:"case"`
	}
	json.Unmarshal(v.Witness, &w)
	p := w.Case
	if p == nil || (len(p.Body) == 0 && p.Family == "") {
		p = new(Prog)
		if err := json.Unmarshal(v.Witness, p); err != nil || p.Family == "" {
			// Guard-wrapped witness: {"case": {...}, "panic":..}; or a child crash: last_case
			var c struct {
				Last mon.Hex `json:"last_case"`
			}
			json.Unmarshal(v.Witness, &c)
			if len(c.Last) == 0 || json.Unmarshal(c.Last, p) != nil {
				fmt.Println("MACHINERY: replay file has no case")
				os.Exit(2)
			}
		}
	}
	if p.Cfg == "" {
		p.Cfg = "default"
	}
	h := boot(r, p.Cfg)
	h.runCase(p)
	h.cleanup()
	r.Finish(mon.Coverage{Evaluations: 2, DistinctNontrivial: 2, Rule: "replay of one recorded case"})
}

func main() {
	r := mon.Start("C10")
	if args, ok := mon.IsChildInvocation(); ok {
		childMain(r, args)
		return
	}
	if p := mon.ReplayArg(); p != "" {
		replay(r, p)
		return
	}

	workers := runtime.NumCPU()
	if workers > 16 {
		workers = 16
	}
	if workers < 2 {
		workers = 2
	}
	timeout := 10 * time.Minute // watchdogs only ever produce "inconclusive"
	if r.Thorough() {
		timeout = 4 * time.Hour
	}
	var specs []mon.ChildSpec
	for s := 0; s < workers; s++ {
		specs = append(specs, mon.ChildSpec{Label: fmt.Sprintf("default-%d", s), Args: []string{"default", strconv.Itoa(s), strconv.Itoa(workers)},
			Timeout: timeout, Env: []string{"GOMAXPROCS=2"}})
	}
	pre := 2
	for s := 0; s < pre; s++ {
		specs = append(specs, mon.ChildSpec{Label: fmt.Sprintf("pre022-%d", s), Args: []string{"pre022", strconv.Itoa(s), strconv.Itoa(pre)},
			Timeout: timeout, Env: []string{"GOMAXPROCS=2"}})
	}
	results := r.RunChildren(specs, len(specs))
	for _, res := range results {
		r.Absorb(res, "C10:child")
	}
	mon.CleanWork()

	// every opcode of the set that the real table defines must have been executed
	threshold := int64(1000)
	var deficient []string
	nOps := 0
	for op := 0; op < 256; op++ {
		b := byte(op)
		if !evmref.InSet(b) {
			continue
		}
		name := evmref.Name(b)
		if b != 0xfe && r.Get("max_defined:"+name) == 0 {
			continue // not in the real jump table under the default schedule: not compared
		}
		nOps++
		n := r.Get("exec:" + name)
		if b != 0xfe { // INVALID never "completes"; for the others demand completed executions in agreeing runs
			if m := r.Get("refexec:" + name); m < n {
				n = m
			}
		}
		if n < threshold {
			deficient = append(deficient, fmt.Sprintf("%s=%d", name, n))
		}
	}
	r.Count("opcodes_in_compared_set", int64(nOps))
	if len(deficient) == 0 && nOps > 0 {
		r.Count("histogram_every_opcode_ge_1000", 1)
	} else {
		sort.Strings(deficient)
		fmt.Printf("MACHINERY: opcodes executed fewer than %d times: %v\n", threshold, deficient)
	}
	if n := r.Get("ref_selfcheck_failures"); n > 0 {
		fmt.Printf("MACHINERY: the reference interpreter disagrees with %d of the repository's geth vectors — the oracle is broken\n", n)
		r.Inconclusive("reference interpreter failed its self-check against src/vm/testdata on %d vectors", n)
	} else if r.Get("vector_checks") > 0 {
		r.Count("reference_selfcheck_ok", 1)
	}

	evals := r.Get("evaluations")
	r.Finish(mon.Coverage{
		Evaluations:        evals,
		DistinctNontrivial: int64(r.DistinctCount("prog")),
		Rule: "programs = body + fixed-length epilogue dumping MSIZE and the top <=32 stack items; families: geth vectors (src/vm/testdata), exhaustive boundary operand grids per unary/binary/ternary opcode (+ seeded random operands), " +
			"memory-operand grids (MLOAD/MSTORE/MSTORE8/MCOPY/KECCAK256/CALLDATA*/CODECOPY/RETURN/REVERT), exhaustive PUSHn x alignment x jump-target maps, DUP/SWAP depth edges, stack limit, terminators and truncated PUSH, " +
			"seeded random straight-line, memory-biased, branching (loops, if/else, jumps over junk, bad jump targets) and jump-maze programs; " +
			"stack boundary: every defined Ethereum opcode offered at (required-1), (required), (1024 - growth) and one more item (distinct (fork, opcode, depth) pairs in distinct_sets.edge_pair; for opcodes outside the set only the stack check and the trace prefix are judged); " +
			"creation trees: a called contract or a top-level creation that CREATEs 2-4 different hash-less initcodes (also nested), each taking a jump, with offsets that are a JUMPDEST in one and PUSH data in another (both orders, longer later initcode) — result, return data, all-frame trace, created code, nonces and written storage slots compared; " +
			"return-data buffer: CALL/CALLCODE/DELEGATECALL/STATICCALL (value 0) to the precompiles 4 (mostly), 2, 3, to a freshly created callee (echo / constant / revert / invalid / storage-writing) or to a non-existent account, with a non-empty input area and an output area that is empty or disjoint from it, then 1-5 MSTORE/MSTORE8/MCOPY/CALLDATACOPY/CODECOPY over and around the input area (with and without memory expansions before the call and between the writes), then RETURNDATASIZE and RETURNDATACOPY (whole, partial, empty at the end, past the end => must halt); " +
			"calls whose output area overlaps the input area are only recorded (counters recorded:*, one exact program in the notes), not judged; " +
			"all in the default fork schedule and with Proposal022 (PUSH0/MCOPY) inactive. " +
			"Non-trivial: >= 3 instructions executed and normal termination (RETURN/REVERT/STOP) in the reference; distinct by hash of code+calldata (recorded for the first 150k non-trivial programs of every child).",
		Assumptions: []string{
			"reference interpreter ref/evmref is correct (self-checked against src/vm/testdata/testcases_*.json each run)",
			"with 1e11 gas a program that stays within 256 KiB of memory and 20000 steps never runs out of gas (Rangers prices are at most 900x Ethereum's), and a request for >= 256 MiB always does (w^2/512 alone > 1e11); programs in between are not judged",
			"stack items below the top 32 are observed only through the stack length in the step trace",
			"creation programs get 1e15 gas; runs with more than 4 exceptionally halting children (each burns 63/64 of the remaining gas) are not judged; deployed code above 24576 bytes is not judged (Rangers raises EIP-170's limit)",
			"environment pushers (ADDRESS ... GAS) are judged for their stack effect only; CREATE with a non-zero value is outside the reference",
		},
		MustObserve: []string{"vector_checks", "reference_selfcheck_ok", "histogram_every_opcode_ge_1000", "bad_jump_programs", "nontrivial_programs",
			"programs:grid2", "programs:grid3", "programs:line", "programs:branch", "programs:jumpmap", "programs:mem", "programs:edge", "programs:create", "programs:retdata", "programs_with_inner_frames", "edge_evaluations", "max_table_defined_default", "max_table_defined_pre022"},
	})
}
