// C09 — block/header/transaction/group wire codecs are lossless and total.
//
// Runtime monitor around the real codecs of go-rangers
// (middleware/types/serialization.go, consensus/net/msg_decode.go, core sync /
// chain message handlers):
//
//	(a) round trip of node-producible values: field-by-field content + GenHash
//	    equality for headers, blocks, transactions, groups, members;
//	(b) fixed-point law P(S(P(S(x)))) == P(S(x)) for arbitrary in-memory values
//	    and for every value obtained by parsing hostile bytes;
//	(c) totality: every parser, on protobuf messages built field by field by an
//	    independent wire encoder (every subset of fields absent, nested messages
//	    absent, wrong wire types, hostile payloads, malformed time blobs), on
//	    bit-flips / truncations / seeded mutations of valid encodings and on random
//	    bytes, must return a value or an error. A panic is a violation.
//
// The parent process drives the middleware/types parsers in-process (panics are
// recovered and turned into violations); a child process boots the node core and
// drives the consensus decoders and the core receive handlers, and round-trips
// values produced by the node itself (genesis block, cast blocks, genesis group).
package main

import (
	"encoding/json"
	"fmt"
	"math/rand"
	"os"
	"runtime"
	"runtime/debug"
	"sort"
	"strings"
	"sync"
	"time"
	_ "time/tzdata"

	"com.tuntun.rangers/node/src/middleware/types"

	"verifharness/env"
	"verifharness/mon"
)

// Case is the replayable witness of every violation.
type Case struct {
	Kind string `json:"kind"` // "rt" (value round trip) | "bytes" (parser on bytes)
	// rt
	Type  string `json:"type,omitempty"`  // header | tx | block | group | member
	Class string `json:"class,omitempty"` // producible | arbitrary
	Local string `json:"local,omitempty"` // value of time.Local during the case
	Idx   int    `json:"idx,omitempty"`
	Seed  int64  `json:"seed,omitempty"`
	// bytes
	Parser   string             `json:"parser,omitempty"`
	Hex      mon.Hex            `json:"hex,omitempty"`
	Note     string             `json:"note,omitempty"`     // how the input was built
	Culprits map[string]mon.Hex `json:"culprits,omitempty"` // field -> full message without that field (each panics)
}

// ---------------------------------------------------------------------------
// parsers under test

type parserDef struct {
	name   string
	booted bool // needs the booted child
	fn     func(b []byte) (interface{}, error)
	// fix re-serialises a parsed value and parses it again; returns the differing
	// field ("" = fixed point), a detail string and status "ok|skip|refused".
	fix func(v interface{}) (string, string, string)
	typ string
	// exempt (handler-driven entries): is this panic one of the recorded observations
	// outside C09 (DESIGN §8.6: failure after signature validation on well-formed bytes)?
	exempt func(cr callRes) bool
	// code: node-to-node message code of the entry (0 = none); the wire child re-sends
	// every input through network.VerifWorkerHandleMessage (hook H10)
	code uint32
}

var typeParsers = []*parserDef{
	{name: "UnMarshalTransaction", typ: "tx",
		fn: func(b []byte) (interface{}, error) { t, e := types.UnMarshalTransaction(b); return &t, e },
		fix: func(v interface{}) (string, string, string) {
			t := v.(*types.Transaction)
			b, err := types.MarshalTransaction(t)
			if err != nil {
				return "", err.Error(), "refused"
			}
			t2, err := types.UnMarshalTransaction(b)
			if err != nil {
				return "unmarshal-failed", err.Error(), "ok"
			}
			f, d := diffTx(t, &t2)
			return f, d, "ok"
		}},
	{name: "UnMarshalTransactions", typ: "txs",
		fn: func(b []byte) (interface{}, error) { t, e := types.UnMarshalTransactions(b); return t, e },
		fix: func(v interface{}) (string, string, string) {
			ts := v.([]*types.Transaction)
			b, err := types.MarshalTransactions(ts)
			if err != nil {
				return "", err.Error(), "refused"
			}
			ts2, err := types.UnMarshalTransactions(b)
			if err != nil {
				return "unmarshal-failed", err.Error(), "ok"
			}
			if len(ts) != len(ts2) {
				return "len", fmt.Sprintf("%d != %d", len(ts), len(ts2)), "ok"
			}
			for i := range ts {
				if f, d := diffTx(ts[i], ts2[i]); f != "" {
					return f, d, "ok"
				}
			}
			return "", "", "ok"
		}},
	{name: "UnMarshalBlock", typ: "block",
		fn: func(b []byte) (interface{}, error) {
			v, e := types.UnMarshalBlock(b)
			if v == nil {
				return nil, e
			}
			return v, e
		},
		fix: func(v interface{}) (string, string, string) {
			x := v.(*types.Block)
			if x.Header == nil {
				return "", "block without header", "skip"
			}
			b, err := types.MarshalBlock(x)
			if err != nil || b == nil {
				return "", fmt.Sprint(err), "refused"
			}
			y, err := types.UnMarshalBlock(b)
			if err != nil || y == nil {
				return "unmarshal-failed", fmt.Sprint(err), "ok"
			}
			f, d := diffBlock(x, y)
			return f, d, "ok"
		}},
	{name: "UnMarshalBlockHeader", typ: "header",
		fn: func(b []byte) (interface{}, error) {
			v, e := types.UnMarshalBlockHeader(b)
			if v == nil {
				return nil, e
			}
			return v, e
		},
		fix: func(v interface{}) (string, string, string) {
			x := v.(*types.BlockHeader)
			b, err := types.MarshalBlockHeader(x)
			if err != nil || b == nil {
				return "", fmt.Sprint(err), "refused"
			}
			y, err := types.UnMarshalBlockHeader(b)
			if err != nil || y == nil {
				return "unmarshal-failed", fmt.Sprint(err), "ok"
			}
			f, d := diffHeader(x, y)
			return f, d, "ok"
		}},
	{name: "UnMarshalGroup", typ: "group",
		fn: func(b []byte) (interface{}, error) {
			v, e := types.UnMarshalGroup(b)
			if v == nil {
				return nil, e
			}
			return v, e
		},
		fix: func(v interface{}) (string, string, string) {
			x := v.(*types.Group)
			if x.Header == nil {
				return "", "group without header", "skip"
			}
			b, err := types.MarshalGroup(x)
			if err != nil {
				return "", err.Error(), "refused"
			}
			y, err := types.UnMarshalGroup(b)
			if err != nil || y == nil {
				return "unmarshal-failed", fmt.Sprint(err), "ok"
			}
			f, d := diffGroup(x, y)
			return f, d, "ok"
		}},
	{name: "UnMarshalMember", typ: "member",
		fn: func(b []byte) (interface{}, error) {
			v, e := types.UnMarshalMember(b)
			if v == nil {
				return nil, e
			}
			return v, e
		},
		fix: func(v interface{}) (string, string, string) {
			x := v.(*types.Member)
			b, err := types.MarshalMember(x)
			if err != nil {
				return "", err.Error(), "refused"
			}
			y, err := types.UnMarshalMember(b)
			if err != nil || y == nil {
				return "unmarshal-failed", fmt.Sprint(err), "ok"
			}
			f, d := diffMember(x, y)
			return f, d, "ok"
		}},
}

func parserByName(name string) *parserDef {
	for _, p := range typeParsers {
		if p.name == name {
			return p
		}
	}
	for _, p := range bootedParsers() {
		if p.name == name {
			return p
		}
	}
	return nil
}

// ---------------------------------------------------------------------------
// engine: counters, panic table, hostile runner

type panicRec struct {
	parser, site, msg, note string
	b                       []byte
	n                       int64
	culprits                map[string]mon.Hex
}

type engine struct {
	r       *mon.Run
	mu      sync.Mutex
	cnt     map[string]int64
	panics  map[string]*panicRec // by signature
	workers int
	fixV    map[string]int
	// wire child: panics are not judged (the booted child does), every executed input is handed to tap
	quiet bool
	tap   func(p *parserDef, h hostile, panicked bool)
}

func newEngine(r *mon.Run) *engine {
	return &engine{r: r, cnt: map[string]int64{}, panics: map[string]*panicRec{}, workers: runtime.NumCPU(), fixV: map[string]int{}}
}

type lcnt map[string]int64

func (e *engine) merge(l lcnt) {
	e.mu.Lock()
	for k, v := range l {
		e.cnt[k] += v
	}
	e.mu.Unlock()
}

func (e *engine) flush() {
	e.mu.Lock()
	for k, v := range e.cnt {
		e.r.Count(k, v)
	}
	e.cnt = map[string]int64{}
	e.mu.Unlock()
}

const (
	resOK = iota + 1
	resErr
	resPanic
)

// call runs one parser on one input; a panic is recovered and classified by
// its first repository frame.
type callRes struct {
	v        interface{}
	err      error
	panicked bool
	site     string
	msg      string
	stack    string
}

func call(p *parserDef, b []byte) (res callRes) {
	defer func() {
		if x := recover(); x != nil {
			res.panicked = true
			res.stack = string(debug.Stack())
			res.site = mon.PanicSite(res.stack)
			res.msg = fmt.Sprint(x)
		}
	}()
	res.v, res.err = p.fn(b)
	return
}

// diffSig: signature of a content difference. All differences caused by the
// unsigned seconds byte of time.UnmarshalBinary share one signature.
func diffSig(kind, typ, field string) string {
	if strings.HasSuffix(field, negSecField) {
		return "C09:time-blob:negative-second-offset"
	}
	return "C09:" + kind + ":" + typ + ":" + field
}

const negSecWhat = " [zone offset negative with a seconds part: BlockHeaderToPb/GroupToPbHeader carry times as time.MarshalBinary, whose version-2 form is decoded with an unsigned seconds byte (go1.23 time.UnmarshalBinary), so every serialise/parse pass moves the offset and the JSON-based hash]"

func negWhat(field string) string {
	if strings.HasSuffix(field, negSecField) {
		return negSecWhat
	}
	return ""
}

func sigOf(p *parserDef, site string) string { return "C09:" + p.name + ":panic:" + site }

func less(a, b []byte) bool {
	if len(a) != len(b) {
		return len(a) < len(b)
	}
	return string(a) < string(b)
}

func (e *engine) recordPanic(p *parserDef, site, msg string, b []byte, note string) {
	sig := sigOf(p, site)
	e.mu.Lock()
	rec := e.panics[sig]
	if rec == nil {
		rec = &panicRec{parser: p.name, site: site, msg: msg, b: append([]byte{}, b...), note: note}
		e.panics[sig] = rec
	} else if less(b, rec.b) {
		rec.b, rec.note, rec.msg = append([]byte{}, b...), note, msg
	}
	rec.n++
	e.mu.Unlock()
}

// one executes one hostile input and returns resOK/resErr/resPanic.
func (e *engine) one(p *parserDef, h hostile, l lcnt) int {
	if e.r.IsChild() {
		e.r.CaseBegin(append([]byte(p.name+"\x00"), h.b...))
	}
	l["hostile_"+p.name]++
	cr := call(p, h.b)
	v, err := cr.v, cr.err
	if e.tap != nil {
		defer func() { e.tap(p, h, cr.panicked) }()
	}
	if cr.panicked && e.quiet {
		l["panics_seen_not_judged_here_"+p.name]++
		return resPanic
	}
	if cr.panicked && p.exempt != nil && p.exempt(cr) {
		// well-formed bytes, failure after signature validation: recorded in DESIGN §8.6, not judged
		l["handler_panics_after_signature_check_"+p.name]++
		l["reached_conversion_"+p.name]++
		e.mu.Lock()
		if e.fixV["after:"+p.name+cr.site] == 0 {
			e.fixV["after:"+p.name+cr.site] = 1
			e.r.Note("outside C09 (DESIGN 8.6, decoder accepted the bytes, signature check failed): %s panics in %s: %s; input %x", p.name, cr.site, cr.msg, clip(h.b, 200))
		}
		e.mu.Unlock()
		return resOK
	}
	if cr.panicked {
		l["panics_"+p.name]++
		l["reached_conversion_"+p.name]++
		e.recordPanic(p, cr.site, cr.msg, h.b, h.note)
		e.r.Distinct("reach", []byte(p.name), h.b)
		return resPanic
	}
	if err != nil {
		l["rejected_"+p.name]++
		return resErr
	}
	l["reached_conversion_"+p.name]++
	e.r.Distinct("reach", []byte(p.name), h.b)
	if v == nil {
		l["nil_value_nil_error_"+p.name]++
		return resOK
	}
	if p.fix != nil {
		var f, d, st string
		if e.r.Guard("C09:reserialise:"+p.typ, Case{Kind: "bytes", Parser: p.name, Hex: h.b, Note: h.note}, func() { f, d, st = p.fix(v) }) {
			return resOK
		}
		switch st {
		case "skip":
			l["parsed_incomplete_"+p.typ]++
		case "refused":
			l["parsed_value_marshal_refused_"+p.typ]++
			e.mu.Lock()
			if e.fixV["refused:"+p.typ] == 0 {
				e.fixV["refused:"+p.typ] = 1
				e.r.Note("value parsed by %s from %x cannot be serialised again (%s)", p.name, h.b, d)
			}
			e.mu.Unlock()
		default:
			l["parsed_fixedpoint_checks_"+p.typ]++
			if f != "" {
				e.r.Violation(diffSig("fixedpoint-parsed", p.typ, f), fmt.Sprintf("value parsed by %s changes under one more serialise/parse pass at %s: %s%s", p.name, f, d, negWhat(f)),
					Case{Kind: "bytes", Parser: p.name, Hex: h.b, Note: h.note})
			}
		}
	}
	return resOK
}

const chunk = 1024

// runList executes a materialised family in parallel; results (optional) gets the outcome per element.
func (e *engine) runList(p *parserDef, hs []hostile, results []uint8) {
	n := (len(hs) + chunk - 1) / chunk
	w := e.workers
	if p.booted {
		w = 1
	}
	mon.Parallel(n, w, func(ci int) {
		l := lcnt{}
		for i := ci * chunk; i < (ci+1)*chunk && i < len(hs); i++ {
			res := e.one(p, hs[i], l)
			if results != nil {
				results[i] = uint8(res)
			}
		}
		e.merge(l)
	})
}

// runGen executes n generated inputs; gen is a pure function of (rng of the chunk, index).
func (e *engine) runGen(p *parserDef, label string, n int, gen func(rng *rand.Rand, k int) hostile) {
	nc := (n + chunk - 1) / chunk
	w := e.workers
	if p.booted {
		w = 1
	}
	mon.Parallel(nc, w, func(ci int) {
		l := lcnt{}
		rng := e.r.Rand("hostile", label, p.name, ci)
		for i := ci * chunk; i < (ci+1)*chunk && i < n; i++ {
			e.one(p, gen(rng, i), l)
		}
		e.merge(l)
	})
}

// subsets runs the given masks of message m (wrapped by wrap) through p and
// analyses which single omissions panic ("culprits") and whether they explain
// every outcome.
func (e *engine) subsets(p *parserDef, m message, label string, masks []uint64, wrap func([]byte) []byte) {
	build := func(mask uint64) []byte {
		b := m.enc(mask)
		if wrap != nil {
			b = wrap(b)
		}
		return b
	}
	res := make([]uint8, len(masks))
	nc := (len(masks) + chunk - 1) / chunk
	w := e.workers
	if p.booted {
		w = 1
	}
	mon.Parallel(nc, w, func(ci int) {
		l := lcnt{}
		for i := ci * chunk; i < (ci+1)*chunk && i < len(masks); i++ {
			res[i] = uint8(e.one(p, hostile{build(masks[i]), label + " missing=" + m.missing(masks[i])}, l))
		}
		e.merge(l)
	})
	full := m.full()
	culprit := uint64(0)
	var reqMask uint64
	for i, f := range m {
		if f.req {
			reqMask |= 1 << uint(i)
		}
	}
	single := map[uint64]int{}
	for i, mask := range masks {
		single[mask] = i
	}
	msgName := label
	if i := strings.IndexByte(label, '/'); i > 0 {
		msgName = label[:i]
	}
	culBySig := map[string]map[string]mon.Hex{}
	for i := range m {
		mask := full &^ (1 << uint(i))
		if k, ok := single[mask]; ok && res[k] == resPanic {
			culprit |= 1 << uint(i)
			b := build(mask)
			if cr := call(p, b); cr.panicked {
				sig := sigOf(p, cr.site)
				if culBySig[sig] == nil {
					culBySig[sig] = map[string]mon.Hex{}
				}
				culBySig[sig][msgName+"."+m[i].name] = b
			}
		}
	}
	// shields: fields whose absence makes the parser give up before it dereferences anything
	shield := uint64(0)
	if culprit != 0 {
		c0 := uint(0)
		for culprit&(1<<c0) == 0 {
			c0++
		}
		for i := range m {
			if uint(i) == c0 {
				continue
			}
			if k, ok := single[full&^(1<<c0)&^(1<<uint(i))]; ok && res[k] != resPanic && reqMask&(1<<uint(i)) == 0 {
				shield |= 1 << uint(i)
			}
		}
	}
	unexplained := 0
	var ex string
	for i, mask := range masks {
		want := mask&reqMask == reqMask && (full&^mask)&culprit != 0 && (full&^mask)&shield == 0
		if (res[i] == resPanic) != want {
			unexplained++
			if ex == "" {
				ex = "e.g. missing=" + m.missing(mask)
			}
		}
	}
	names := []string{}
	for i := range m {
		if culprit&(1<<uint(i)) != 0 {
			names = append(names, m[i].name)
		}
	}
	if len(names) > 0 {
		sh := []string{}
		for i := range m {
			if shield&(1<<uint(i)) != 0 {
				sh = append(sh, m[i].name)
			}
		}
		shTxt := ""
		if len(sh) > 0 {
			shTxt = "; no panic when {" + strings.Join(sh, ",") + "} is absent as well: the parser gives up earlier"
		}
		e.r.Note("%s [%s]: panics exactly when one of {%s} is absent (required fields present%s); outcomes not explained by that rule: %d %s",
			p.name, label, strings.Join(names, ","), shTxt, unexplained, ex)
		e.mu.Lock()
		for sig, cul := range culBySig {
			if rec := e.panics[sig]; rec != nil {
				if rec.culprits == nil {
					rec.culprits = map[string]mon.Hex{}
				}
				for k, v := range cul {
					if _, ok := rec.culprits[k]; !ok {
						rec.culprits[k] = v
					}
				}
			}
		}
		e.mu.Unlock()
	} else if unexplained > 0 {
		e.r.Note("%s [%s]: %d panics on field subsets although no single omission panics, %s", p.name, label, unexplained, ex)
	}
	e.mu.Lock()
	e.cnt["subset_cases_"+p.name] += int64(len(masks))
	e.cnt["subset_outcomes_unexplained"] += int64(unexplained)
	e.mu.Unlock()
}

func clip(b []byte, n int) []byte {
	if len(b) > n {
		return b[:n]
	}
	return b
}

func allMasks(n int) []uint64 {
	out := make([]uint64, 1<<uint(n))
	for i := range out {
		out[i] = uint64(i)
	}
	return out
}

// singlesDoubles: the full message, all single and double omissions, the empty
// message and k seeded random subsets.
func singlesDoubles(n, k int, rng *rand.Rand) []uint64 {
	full := (uint64(1) << uint(n)) - 1
	out := []uint64{full, 0}
	for i := 0; i < n; i++ {
		out = append(out, full&^(1<<uint(i)))
		out = append(out, 1<<uint(i))
		for j := i + 1; j < n; j++ {
			out = append(out, full&^(1<<uint(i))&^(1<<uint(j)))
		}
	}
	for i := 0; i < k; i++ {
		out = append(out, rng.Uint64()&full)
	}
	return out
}

// shrink greedily deletes byte ranges while the same parser still panics at the same site.
func shrink(p *parserDef, b []byte, site string) []byte {
	cur := append([]byte{}, b...)
	for step := len(cur) / 2; step >= 1; step /= 2 {
		for i := 0; i+step <= len(cur); {
			cand := append(append([]byte{}, cur[:i]...), cur[i+step:]...)
			if cr := call(p, cand); cr.panicked && cr.site == site && (p.exempt == nil || !p.exempt(cr)) {
				cur = cand
			} else {
				i += step
			}
		}
	}
	return cur
}

// reportPanics turns the panic table into violations: one per signature, with
// the smallest witness, re-executed under r.Guard (which records the stack).
func (e *engine) reportPanics() {
	sigs := []string{}
	for s := range e.panics {
		sigs = append(sigs, s)
	}
	sort.Strings(sigs)
	for _, s := range sigs {
		rec := e.panics[s]
		p := parserByName(rec.parser)
		small := shrink(p, rec.b, rec.site)
		note := rec.note
		if len(small) < len(rec.b) {
			note = "shrunk from: " + rec.note
		}
		c := Case{Kind: "bytes", Parser: rec.parser, Hex: small, Note: note, Culprits: rec.culprits}
		e.r.Count("panic_signatures", 1)
		// the class of absent fields that trigger the panic is part of the signature: a new
		// unconditional dereference in the same function is a different finding
		prefix := "C09:" + rec.parser
		if len(rec.culprits) > 0 {
			set := map[string]bool{}
			for k := range rec.culprits {
				set[k[strings.LastIndexByte(k, '.')+1:]] = true
			}
			names := []string{}
			for k := range set {
				names = append(names, k)
			}
			sort.Strings(names)
			prefix += "[missing=" + strings.Join(names, ",") + "]"
		}
		e.r.Guard(prefix, c, func() { p.fn(small) })
	}
}

// ---------------------------------------------------------------------------
// value round trips

type codec struct {
	typ       string
	gen       func(rng *rand.Rand, arbitrary bool) interface{}
	marshal   func(v interface{}) ([]byte, error)
	unmarshal func(b []byte) (interface{}, error)
	diff      func(a, b interface{}) (string, string)
	mName     string
	uName     string
}

var codecs = []*codec{
	{typ: "header", mName: "MarshalBlockHeader", uName: "UnMarshalBlockHeader",
		gen:     func(rng *rand.Rand, a bool) interface{} { return genHeader(rng, a) },
		marshal: func(v interface{}) ([]byte, error) { return types.MarshalBlockHeader(v.(*types.BlockHeader)) },
		unmarshal: func(b []byte) (interface{}, error) {
			v, e := types.UnMarshalBlockHeader(b)
			if v == nil {
				return nil, e
			}
			return v, e
		},
		diff: func(a, b interface{}) (string, string) {
			return diffHeader(a.(*types.BlockHeader), b.(*types.BlockHeader))
		}},
	{typ: "tx", mName: "MarshalTransaction", uName: "UnMarshalTransaction",
		gen:       func(rng *rand.Rand, a bool) interface{} { return genTx(rng, a) },
		marshal:   func(v interface{}) ([]byte, error) { return types.MarshalTransaction(v.(*types.Transaction)) },
		unmarshal: func(b []byte) (interface{}, error) { t, e := types.UnMarshalTransaction(b); return &t, e },
		diff:      func(a, b interface{}) (string, string) { return diffTx(a.(*types.Transaction), b.(*types.Transaction)) }},
	{typ: "block", mName: "MarshalBlock", uName: "UnMarshalBlock",
		gen:     func(rng *rand.Rand, a bool) interface{} { return genBlock(rng, a) },
		marshal: func(v interface{}) ([]byte, error) { return types.MarshalBlock(v.(*types.Block)) },
		unmarshal: func(b []byte) (interface{}, error) {
			v, e := types.UnMarshalBlock(b)
			if v == nil || v.Header == nil {
				return nil, e
			}
			return v, e
		},
		diff: func(a, b interface{}) (string, string) { return diffBlock(a.(*types.Block), b.(*types.Block)) }},
	{typ: "group", mName: "MarshalGroup", uName: "UnMarshalGroup",
		gen:     func(rng *rand.Rand, a bool) interface{} { return genGroup(rng, a) },
		marshal: func(v interface{}) ([]byte, error) { return types.MarshalGroup(v.(*types.Group)) },
		unmarshal: func(b []byte) (interface{}, error) {
			v, e := types.UnMarshalGroup(b)
			if v == nil {
				return nil, e
			}
			return v, e
		},
		diff: func(a, b interface{}) (string, string) { return diffGroup(a.(*types.Group), b.(*types.Group)) }},
	{typ: "member", mName: "MarshalMember", uName: "UnMarshalMember",
		gen:     func(rng *rand.Rand, a bool) interface{} { return genMember(rng) },
		marshal: func(v interface{}) ([]byte, error) { return types.MarshalMember(v.(*types.Member)) },
		unmarshal: func(b []byte) (interface{}, error) {
			v, e := types.UnMarshalMember(b)
			if v == nil {
				return nil, e
			}
			return v, e
		},
		diff: func(a, b interface{}) (string, string) { return diffMember(a.(*types.Member), b.(*types.Member)) }},
}

func codecOf(typ string) *codec {
	for _, c := range codecs {
		if c.typ == typ {
			return c
		}
	}
	return nil
}

// roundTrip checks one value x of codec cd. producible: P(S(x)) must equal x in
// content and hash, S must not refuse. Always: P(S(P(S(x)))) == P(S(x)).
func roundTrip(r *mon.Run, cd *codec, x interface{}, producible bool, c Case, l lcnt) {
	var b []byte
	var err error
	kind := "fixedpoint"
	if producible {
		kind = "roundtrip"
	}
	if r.Guard("C09:"+kind+":"+cd.mName, c, func() { b, err = cd.marshal(x) }) {
		return
	}
	if err != nil || b == nil {
		if producible {
			r.Violation("C09:roundtrip:"+cd.typ+":marshal-refused", fmt.Sprintf("%s refuses a node-producible value: err=%v bytes=nil:%v", cd.mName, err, b == nil), c)
		} else {
			l["arbitrary_marshal_refused_"+cd.typ]++
		}
		return
	}
	var y interface{}
	if r.Guard("C09:"+kind+":"+cd.uName, c, func() { y, err = cd.unmarshal(b) }) {
		return
	}
	if err != nil || y == nil {
		r.Violation("C09:"+kind+":"+cd.typ+":unmarshal-failed", fmt.Sprintf("%s does not read back the output of %s: err=%v nil=%v", cd.uName, cd.mName, err, y == nil), c)
		return
	}
	if producible {
		l["roundtrip_"+cd.typ]++
		l["hash_comparisons"]++
		if f, d := cd.diff(x, y); f != "" {
			r.Violation(diffSig("roundtrip", cd.typ, f), fmt.Sprintf("%s(%s(x)) differs from x at %s: %s%s", cd.uName, cd.mName, f, d, negWhat(f)), c)
			return
		}
	}
	var b2 []byte
	if r.Guard("C09:fixedpoint:"+cd.mName, c, func() { b2, err = cd.marshal(y) }) {
		return
	}
	if err != nil || b2 == nil {
		r.Violation("C09:fixedpoint:"+cd.typ+":marshal-refused", fmt.Sprintf("%s refuses a value that %s returned: %v", cd.mName, cd.uName, err), c)
		return
	}
	var y2 interface{}
	if r.Guard("C09:fixedpoint:"+cd.uName, c, func() { y2, err = cd.unmarshal(b2) }) {
		return
	}
	if err != nil || y2 == nil {
		r.Violation("C09:fixedpoint:"+cd.typ+":unmarshal-failed", fmt.Sprintf("second pass does not parse: %v", err), c)
		return
	}
	l["fixedpoint_"+cd.typ]++
	l["hash_comparisons"]++
	if f, d := cd.diff(y, y2); f != "" {
		r.Violation(diffSig("fixedpoint", cd.typ, f), fmt.Sprintf("second serialise/parse pass changes %s: %s%s", f, d, negWhat(f)), c)
	}
	if string(b) == string(b2) {
		l["reencoding_identical"]++
	}
	r.Distinct("rt", []byte(cd.typ), b)
}

func setLocal(name string) {
	loc, err := time.LoadLocation(name)
	if err != nil {
		panic(err)
	}
	if name == "UTC" {
		loc = time.UTC
	}
	time.Local = loc
}

func rtCase(r *mon.Run, c Case, l lcnt) {
	cd := codecOf(c.Type)
	rng := mon.NewRand(c.Seed, "rt", c.Type, c.Class, c.Idx)
	x := cd.gen(rng, c.Class == "arbitrary")
	roundTrip(r, cd, x, c.Class == "producible", c, l)
}

func (e *engine) roundTrips() {
	r := e.r
	sizes := map[string][2]int{ // producible, arbitrary (per Local setting)
		"header": {r.Pick(20000, 500000), r.Pick(20000, 500000)},
		"tx":     {r.Pick(20000, 500000), r.Pick(20000, 500000)},
		"block":  {r.Pick(3000, 100000), r.Pick(3000, 100000)},
		"group":  {r.Pick(6000, 200000), r.Pick(6000, 200000)},
		"member": {r.Pick(1000, 20000), 0},
	}
	for _, local := range []string{"UTC", "Asia/Shanghai"} {
		setLocal(local)
		for _, cd := range codecs {
			for ci, class := range []string{"producible", "arbitrary"} {
				n := sizes[cd.typ][ci]
				nc := (n + chunk - 1) / chunk
				cd, class, local := cd, class, local
				mon.Parallel(nc, e.workers, func(k int) {
					l := lcnt{}
					for i := k * chunk; i < (k+1)*chunk && i < n; i++ {
						rtCase(r, Case{Kind: "rt", Type: cd.typ, Class: class, Local: local, Idx: i, Seed: r.Seed}, l)
					}
					e.merge(l)
				})
			}
		}
	}
	setLocal("UTC")
}

// ---------------------------------------------------------------------------
// hostile workload of the parent (middleware/types parsers)

func (e *engine) hostileTypes() {
	r := e.r
	pTx, pTxs, pBlock, pHdr, pGroup, pMember := typeParsers[0], typeParsers[1], typeParsers[2], typeParsers[3], typeParsers[4], typeParsers[5]
	goodTx, goodHdr := txMsg(0).all(), headerMsg(0).all()
	goodGH := groupHeaderMsg(0).all()
	tb := timeBlobs()
	signLens := [][]byte{{}, seqBytes(1, 9), seqBytes(64, 9), seqBytes(65, 9), seqBytes(66, 9), seqBytes(130, 9)}

	var pool []hostile // structured inputs, cross-fed to every parser

	// --- Transaction: every subset of the 15 fields (exhaustive), three value variants
	for v := 0; v < r.Pick(2, 3); v++ {
		m := txMsg(v)
		e.subsets(pTx, m, fmt.Sprintf("Transaction/v%d", v), allMasks(len(m)), nil)
		e.subsets(pTxs, m, fmt.Sprintf("TransactionSlice[1]/v%d", v), allMasks(len(m)), func(b []byte) []byte { return txSliceMsg(goodTx, b, goodTx).all() })
		e.subsets(pBlock, m, fmt.Sprintf("Block.transactions[1]/v%d", v), allMasks(len(m)), func(b []byte) []byte { return blockMsg(goodHdr, goodTx, b).all() })
		ww := append(wrongWire(m, "Transaction "), payloads(m, "Transaction ", map[string][][]byte{"Sign": signLens})...)
		e.runList(pTx, ww, nil)
		pool = append(pool, ww...)
		for _, h := range ww {
			pool = append(pool, hostile{txSliceMsg(h.b).all(), "TransactionSlice{" + h.note + "}"})
			pool = append(pool, hostile{blockMsg(goodHdr, h.b).all(), "Block{tx:" + h.note + "}"})
		}
	}
	e.subsets(pTxs, txSliceMsg(goodTx, goodTx), "TransactionSlice", allMasks(1), nil)

	// --- BlockHeader: all single and double omissions + seeded random subsets (thorough: all 2^20)
	for v := 0; v < 3; v++ {
		m := headerMsg(v)
		var masks []uint64
		if r.Thorough() && v == 0 {
			masks = allMasks(len(m))
		} else {
			masks = singlesDoubles(len(m), r.Pick(8000, 100000), r.Rand("hdr-subsets", v))
		}
		e.subsets(pHdr, m, fmt.Sprintf("BlockHeader/v%d", v), masks, nil)
		e.subsets(pBlock, m, fmt.Sprintf("Block.Header/v%d", v), singlesDoubles(len(m), r.Pick(2000, 50000), r.Rand("blk-hdr-subsets", v)),
			func(b []byte) []byte { return blockMsg(b, goodTx).all() })
		ww := append(wrongWire(m, "BlockHeader "), payloads(m, "BlockHeader ", map[string][][]byte{"PreTime": tb, "CurTime": tb,
			"transactions": {txHashMsg(1).enc(0), txHashMsg(1).enc(1), txHashMsg(1).enc(2), seqBytes(40, 0x0a)},
			"EvictedTxs":   {hashesMsg(0).all(), hashesMsg(300).all(), {0x0a, 0x00}, {0x0a, 0x21}, {0x08, 0x01}}})...)
		e.runList(pHdr, ww, nil)
		pool = append(pool, ww...)
		for _, h := range ww {
			pool = append(pool, hostile{blockMsg(h.b, goodTx).all(), "Block{Header:" + h.note + "}"})
		}
	}
	// both time blobs hostile at once
	{
		m := headerMsg(0)
		var hs []hostile
		for i, a := range tb {
			for j, b := range tb {
				c := m.with("PreTime", item{num: 4, wt: wtBytes, p: a}).with("CurTime", item{num: 7, wt: wtBytes, p: b})
				hs = append(hs, hostile{c.all(), fmt.Sprintf("BlockHeader PreTime=blob#%d CurTime=blob#%d", i, j)})
			}
		}
		e.runList(pHdr, hs, nil)
	}

	// --- Block level
	{
		m := blockMsg(goodHdr, goodTx, goodTx)
		e.subsets(pBlock, m, "Block", allMasks(len(m)), nil)
		ww := append(wrongWire(m, "Block "), payloads(m, "Block ", nil)...)
		e.runList(pBlock, ww, nil)
		pool = append(pool, ww...)
	}

	// --- Group x GroupHeader: exhaustive product of the subsets of both levels
	for v := 0; v < 2; v++ {
		gh := groupHeaderMsg(v)
		var hs []hostile
		for hm := uint64(0); hm <= gh.full(); hm++ {
			hb := gh.enc(hm)
			g := groupMsg(hb, v)
			for gm := uint64(0); gm <= g.full(); gm++ {
				hs = append(hs, hostile{g.enc(gm), fmt.Sprintf("Group/v%d missing=%s header-missing=%s", v, g.missing(gm), gh.missing(hm))})
			}
		}
		e.runList(pGroup, hs, nil)
		e.mu.Lock()
		e.cnt["subset_cases_UnMarshalGroup"] += int64(len(hs))
		e.mu.Unlock()
		e.subsets(pGroup, groupMsg(gh.all(), v), fmt.Sprintf("Group/v%d", v), allMasks(6), nil)
		e.subsets(pGroup, gh, fmt.Sprintf("Group.Header/v%d", v), allMasks(len(gh)), func(b []byte) []byte { return groupMsg(b, v).all() })
		ww := append(wrongWire(groupMsg(gh.all(), v), "Group "), payloads(groupMsg(gh.all(), v), "Group ", nil)...)
		for _, h := range append(wrongWire(gh, "GroupHeader "), payloads(gh, "GroupHeader ", map[string][][]byte{"BeginTime": tb})...) {
			ww = append(ww, hostile{groupMsg(h.b, v).all(), "Group{Header:" + h.note + "}"})
		}
		e.runList(pGroup, ww, nil)
		pool = append(pool, ww...)
	}

	// --- Member
	{
		m := memberMsg()
		e.subsets(pMember, m, "Member", allMasks(len(m)), nil)
		ww := append(wrongWire(m, "Member "), payloads(m, "Member ", nil)...)
		e.runList(pMember, ww, nil)
		pool = append(pool, ww...)
	}

	// --- cross feeding of every structured input to every parser
	for _, p := range typeParsers {
		e.runList(p, pool, nil)
	}
	e.mu.Lock()
	e.cnt["structured_pool_inputs"] += int64(len(pool))
	e.mu.Unlock()

	// --- mutations of valid encodings (all truncations + all single-bit flips + seeded mutations) and random bytes
	valid := map[*parserDef][][]byte{
		pTx:     {txMsg(0).all(), txMsg(1).all(), txMsg(2).all()},
		pTxs:    {txSliceMsg(goodTx, txMsg(1).all()).all()},
		pBlock:  {blockMsg(goodHdr, goodTx, txMsg(2).all()).all(), blockMsg(headerMsg(1).all()).all()},
		pHdr:    {goodHdr, headerMsg(1).all(), headerMsg(2).all()},
		pGroup:  {groupMsg(goodGH, 0).all(), groupMsg(groupHeaderMsg(1).all(), 1).all()},
		pMember: {memberMsg().all()},
	}
	nMut := r.Pick(12000, 2000000)
	nRand := r.Pick(12000, 2000000)
	for _, p := range typeParsers {
		for vi, vb := range valid[p] {
			e.runList(p, mutations(vb, 0, nil, fmt.Sprintf("%s valid#%d ", p.typ, vi)), nil)
			vb, vi := vb, vi
			e.runGen(p, fmt.Sprintf("mut%d", vi), nMut/len(valid[p]), func(rng *rand.Rand, k int) hostile {
				return mutations1(vb, rng, fmt.Sprintf("%s valid#%d ", p.typ, vi), k)
			})
		}
		e.runGen(p, "random", nRand, func(rng *rand.Rand, k int) hostile { return randomBytes(1, rng, 20)[0] })
	}
}

// mutations1: one seeded mutation of a valid encoding.
func mutations1(valid []byte, rng *rand.Rand, tag string, k int) hostile {
	return hostile{mutate(valid, rng), tag + "mut#" + itoa(k)}
}

// ---------------------------------------------------------------------------

func silence() func() {
	devnull, err := os.OpenFile(os.DevNull, os.O_WRONLY, 0)
	if err != nil {
		return func() {}
	}
	so, se := os.Stdout, os.Stderr
	os.Stdout, os.Stderr = devnull, devnull
	return func() { os.Stdout, os.Stderr = so, se; devnull.Close() }
}

func replay(r *mon.Run, path string) {
	v, err := mon.LoadReplay(path)
	if err != nil {
		fmt.Println("MACHINERY:", err)
		os.Exit(2)
	}
	var w struct {
		Case *Case `json:"case"`
	}
	var c Case
	json.Unmarshal(v.Witness, &w)
	if w.Case != nil {
		c = *w.Case
	} else {
		json.Unmarshal(v.Witness, &c)
	}
	if len(c.Kind) == 0 { // fatal child death: {"args":…, "last_case": hex(parser \x00 bytes)}
		var f struct {
			Last mon.Hex `json:"last_case"`
		}
		json.Unmarshal(v.Witness, &f)
		if i := strings.IndexByte(string(f.Last), 0); i > 0 {
			c = Case{Kind: "bytes", Parser: string(f.Last[:i]), Hex: f.Last[i+1:]}
		}
	}
	dir := env.ScratchDir("verif-c09-")
	defer os.RemoveAll(dir)
	e := newEngine(r)
	switch c.Kind {
	case "rt":
		types.InitSerialzation()
		setLocal(c.Local)
		l := lcnt{}
		rtCase(r, c, l)
		e.merge(l)
	case "bytes":
		p := parserByName(c.Parser)
		if p == nil {
			fmt.Println("MACHINERY: unknown parser", c.Parser)
			os.Exit(2)
		}
		if p.booted {
			bootNode()
		} else {
			types.InitSerialzation()
		}
		restore := silence()
		l := lcnt{}
		e.one(p, hostile{c.Hex, c.Note}, l)
		e.reportPanics()
		restore()
	case "node":
		bootNode()
		nodeValues(e)
	default:
		fmt.Println("MACHINERY: unknown witness kind")
		os.Exit(2)
	}
	os.RemoveAll(dir)
	r.Finish(mon.Coverage{Evaluations: 2, DistinctNontrivial: 2, Rule: "replay of one recorded case"})
}

func main() {
	r := mon.Start("C09")
	if args, ok := mon.IsChildInvocation(); ok {
		childMain(r, args)
		return
	}
	if p := mon.ReplayArg(); p != "" {
		replay(r, p)
		return
	}
	dir := env.ScratchDir("verif-c09-")
	types.InitSerialzation() // what middleware.InitMiddleware does for this package (the parsers log through it)
	e := newEngine(r)

	// booted part in a child process, concurrently with the in-process part
	var wg sync.WaitGroup
	var res, wres mon.ChildResult
	wg.Add(2)
	go func() {
		defer wg.Done()
		res = r.RunChild(mon.ChildSpec{Label: "booted", Args: []string{"booted"}, Timeout: time.Duration(r.Pick(10, 60)) * time.Minute})
	}()
	go func() {
		defer wg.Done()
		wres = r.RunChild(mon.ChildSpec{Label: "wire", Args: []string{"wire"}, Timeout: time.Duration(r.Pick(10, 60)) * time.Minute})
	}()

	t0 := time.Now()
	e.roundTrips()
	t1 := time.Now()
	restore := silence()
	e.hostileTypes()
	t2 := time.Now()
	e.reportPanics()
	restore()
	e.flush()
	t3 := time.Now()
	wg.Wait()
	r.Note("timing (informative): round trips %.1fs, hostile bytes %.1fs, shrinking %.1fs, waiting for the booted child %.1fs (child wall %.1fs)",
		t1.Sub(t0).Seconds(), t2.Sub(t1).Seconds(), t3.Sub(t2).Seconds(), time.Since(t3).Seconds(), res.Wall.Seconds())
	r.Absorb(res, "C09:booted")
	// the wire child hands messages to WorkerConn.handleMessage (hook H10); the bus runs the
	// handlers in goroutines without recover, so a handler panic kills that child
	r.Absorb(wres, "C09:wire")
	if r.Get("wire_child_finished") == 0 {
		r.Note("wire child did not finish: exit=%d log tail: %s", wres.Exit, tail(wres.LogTail, 1500))
	}
	if r.Get("booted_child_finished") == 0 {
		r.Note("booted child did not finish: exit=%d log tail: %s", res.Exit, tail(res.LogTail, 1500))
	}

	// samples
	r.Sample(Case{Kind: "rt", Type: "header", Class: "producible", Local: "Asia/Shanghai", Idx: 1, Seed: r.Seed})
	r.Sample(Case{Kind: "rt", Type: "tx", Class: "arbitrary", Local: "UTC", Idx: 2, Seed: r.Seed})
	r.Sample(Case{Kind: "bytes", Parser: "UnMarshalTransaction", Hex: txMsg(0).enc(txMsg(0).full() &^ 2), Note: "Transaction/v0 missing=Nonce"})
	r.Sample(Case{Kind: "bytes", Parser: "UnMarshalBlockHeader", Hex: headerMsg(1).all(), Note: "BlockHeader/v1 missing=none"})
	r.Sample(Case{Kind: "bytes", Parser: "UnMarshalGroup", Hex: groupMsg(groupHeaderMsg(0).enc(0x60), 0).all(), Note: "Group{Header: only required fields}"})

	mon.CleanWork()
	os.Chdir(os.TempDir())
	if strings.Contains(dir, "verif-c09-") {
		os.RemoveAll(dir)
	}

	var evals int64
	must := []string{"hash_comparisons", "booted_child_finished", "node_values_roundtrip", "node_messages_to_handlers", "wire_messages_sent"}
	for _, cd := range codecs {
		evals += r.Get("roundtrip_"+cd.typ) + r.Get("fixedpoint_"+cd.typ)
		must = append(must, "roundtrip_"+cd.typ)
		if cd.typ != "member" {
			must = append(must, "fixedpoint_"+cd.typ)
		}
	}
	for _, p := range append(append([]*parserDef{}, typeParsers...), bootedParsers()...) {
		evals += r.Get("hostile_" + p.name)
		must = append(must, "hostile_"+p.name)
		if !strings.HasPrefix(p.name, "consensus.Handle[") { // Handle reports decode errors as errors; whether a body decodes is not required per code
			must = append(must, "reached_conversion_"+p.name)
		}
	}
	r.Finish(mon.Coverage{
		Evaluations:        evals,
		DistinctNontrivial: int64(r.DistinctCount("reach") + r.DistinctCount("rt")),
		Rule: "values: seeded generators per type, class producible (shapes of genGenesisBlock/CastBlock/TxJson.ToTransaction/group_create: allocated hash lists, non-negative prove values, real-world zones incl. +05:45, -03:30, CST, LMT second offsets, monotonic readings) " +
			"and class arbitrary (nil lists, negative prove values, zones Time.MarshalBinary refuses, invalid UTF-8), each under time.Local=UTC and Asia/Shanghai, plus genesis block / cast blocks / genesis group of a booted node; " +
			"bytes: independent wire encoder — all 2^15 field subsets of Transaction (direct, inside TransactionSlice, inside Block), BlockHeader singles+doubles+seeded subsets (thorough: all 2^20), Group x GroupHeader subsets exhaustive, " +
			"every field with every other wire type / group markers / duplicated, hostile payloads (sign lengths 0/1/64/65/66, malformed time blobs, JSON garbage), all truncations and single-bit flips of valid encodings, seeded mutations, random bytes; " +
			"consensus decoders and core receive handlers in a booted child. Non-trivial: inputs on which protobuf decoding succeeded so that the pbTo* conversion ran (distinct by parser+bytes), and distinct serialised values of the round trips",
		Exhaustive: false,
		Assumptions: []string{
			"Transaction.SocketRequestId is not content: transactionToPb never writes it (local websocket correlation id); excluded from the comparison",
			"GroupHeader.ReadyHeight/WorkHeight/DismissHeight are not content: no field in x.proto, groupChain.AddGroup derives them from CreateHeight on every node",
			"Block.Transactions and Group.Members are compared by length and elements (nil vs empty list not distinguished: no hash or JSON identity depends on it); every other list / byte field / map is compared with nil != empty",
			"totality oracle: value or error, no panic; (nil, nil) results (e.g. UnMarshalBlockHeader on a malformed time blob) are counted, not judged",
			"a serialiser refusing (error / nil bytes) an arbitrary or parsed value is counted, not judged; refusing a node-producible value is a violation",
			"ConsensusHandler.Handle recovers panics of the consensus decoders; the two exported decoders are judged at function level, Handle itself for every consensus message code (nothing may escape)",
			"receive handlers (core.SyncProcessor / core.ChainHandler HandleNetMessage, WorkerConn.handleMessage through hook H10) are part of the totality clause: any panic on bytes offered to them is a violation C09:handler:<topic>:panic:<frame>; the former exception (the 'Sign verify error' log statements that called e.Error() on the nil decode error, hit by every well-formed message with a bad signature) was repaired in /repo 71a7787 and matches nothing any more",
			"validly signed sync requests are not offered: the handlers would answer through the network instance, which is not started in the harness (send blocks on a nil channel)",
		},
		MustObserve: must,
	})
}

func tail(s string, n int) string {
	if len(s) > n {
		return s[len(s)-n:]
	}
	return s
}
