package main

// Hand-written protobuf wire builder (independent of the generated code under
// test) and the hostile-input families of DESIGN.md "C09".

import (
	"encoding/binary"
	"math/rand"
	"strings"
	"time"
)

// wire types
const (
	wtVarint  = 0
	wtFixed64 = 1
	wtBytes   = 2
	wtSGroup  = 3
	wtEGroup  = 4
	wtFixed32 = 5
)

type item struct {
	num int
	wt  int
	v   uint64
	p   []byte
}

// field is one protobuf field of a message instance: its name and the items
// that encode it (several for a repeated field).
type field struct {
	name  string
	req   bool
	items []item
}

type message []field

func putVarint(b []byte, v uint64) []byte {
	for v >= 0x80 {
		b = append(b, byte(v)|0x80)
		v >>= 7
	}
	return append(b, byte(v))
}

func encItems(b []byte, its []item) []byte {
	for _, it := range its {
		b = putVarint(b, uint64(it.num)<<3|uint64(it.wt))
		switch it.wt {
		case wtVarint:
			b = putVarint(b, it.v)
		case wtFixed64:
			var x [8]byte
			binary.LittleEndian.PutUint64(x[:], it.v)
			b = append(b, x[:]...)
		case wtFixed32:
			var x [4]byte
			binary.LittleEndian.PutUint32(x[:], uint32(it.v))
			b = append(b, x[:]...)
		case wtBytes:
			b = putVarint(b, uint64(len(it.p)))
			b = append(b, it.p...)
		case wtSGroup, wtEGroup:
		}
	}
	return b
}

// enc encodes the fields of m whose bit is set in mask (bit i = field i).
func (m message) enc(mask uint64) []byte {
	var b []byte
	for i, f := range m {
		if mask&(1<<uint(i)) != 0 {
			b = encItems(b, f.items)
		}
	}
	return b
}

func (m message) full() uint64 { return (uint64(1) << uint(len(m))) - 1 }

func (m message) all() []byte { return m.enc(m.full()) }

// missing renders the names of the fields absent in mask.
func (m message) missing(mask uint64) string {
	var s []string
	for i, f := range m {
		if mask&(1<<uint(i)) == 0 {
			s = append(s, f.name)
		}
	}
	if len(s) == 0 {
		return "none"
	}
	return strings.Join(s, ",")
}

func (m message) index(name string) int {
	for i, f := range m {
		if f.name == name {
			return i
		}
	}
	panic("no field " + name)
}

// with returns a copy of m in which field name is replaced by the given items.
func (m message) with(name string, its ...item) message {
	c := make(message, len(m))
	copy(c, m)
	i := m.index(name)
	c[i] = field{name: m[i].name, req: m[i].req, items: its}
	return c
}

func fV(name string, num int, v uint64) field {
	return field{name: name, items: []item{{num: num, wt: wtVarint, v: v}}}
}
func fB(name string, num int, p []byte) field {
	return field{name: name, items: []item{{num: num, wt: wtBytes, p: p}}}
}
func fRep(name string, num int, ps ...[]byte) field {
	f := field{name: name}
	for _, p := range ps {
		f.items = append(f.items, item{num: num, wt: wtBytes, p: p})
	}
	return f
}
func req(f field) field { f.req = true; return f }

func seqBytes(n int, start byte) []byte {
	b := make([]byte, n)
	for i := range b {
		b[i] = start + byte(i)
	}
	return b
}

func timeBlob(t time.Time) []byte {
	b, err := t.MarshalBinary()
	if err != nil {
		panic(err)
	}
	return b
}

var (
	goodT1 = time.Date(2021, 12, 7, 10, 11, 12, 123456789, time.FixedZone("CST", 8*3600))
	goodT2 = time.Date(2021, 12, 7, 2, 11, 9, 0, time.UTC)
)

// ---------------------------------------------------------------------------
// "good" instances of every message (variant v changes the values, not the shape)

func txMsg(v int) message {
	data, target, tm, chain, sock := `{"k":"v"}`, "0x00000000000000000000000000000000000000aa", "2021-12-07 10:11:12.123", "9500", "ws-1"
	src := []byte("0x1111111111111111111111111111111111111111")
	extra := []byte(`{"a":1}`)
	sub := []byte(`[{"address":1,"balance":"10","coin":{"c":"1"},"Assets":{"x":"y"}}]`)
	sign := seqBytes(65, 1)
	nonce, rid, edt, typ := uint64(7), uint64(9), uint64(2), uint64(1)
	switch v {
	case 1: // boundary values
		data, target, tm, chain, sock = "", "", "", "", ""
		src, extra, sub = []byte{}, []byte{}, []byte("null")
		sign = []byte{}
		nonce, rid, edt, typ = ^uint64(0), ^uint64(0), uint64(0xffffffff80000000), uint64(0x7fffffff)
	case 2:
		data = strings.Repeat("\x00\xff\xfe", 50)
		sub = []byte(`[{"address":18446744073709551615},{"ft":{"":""}}]`)
		sign[64] = 3
		typ = 188
	}
	return message{
		fB("Data", 1, []byte(data)),
		fV("Nonce", 2, nonce),
		fB("Source", 3, src),
		fB("Target", 4, []byte(target)),
		req(fV("Type", 5, typ)),
		fB("Hash", 6, seqBytes(32, 0x10)),
		fB("ExtraData", 7, extra),
		fV("ExtraDataType", 8, edt),
		fB("Sign", 9, sign),
		fB("Time", 10, []byte(tm)),
		fV("RequestId", 11, rid),
		fB("SocketRequestId", 12, []byte(sock)),
		fB("SubTransactions", 13, sub),
		fB("SubHash", 14, seqBytes(32, 0x40)),
		fB("ChainId", 15, []byte(chain)),
	}
}

func txHashMsg(a byte) message {
	return message{fB("hash", 1, seqBytes(32, a)), fB("subHash", 2, seqBytes(32, a+1))}
}

func hashesMsg(n int) message {
	f := field{name: "hashes"}
	for i := 0; i < n; i++ {
		f.items = append(f.items, item{num: 1, wt: wtBytes, p: seqBytes(32, byte(0x80+i))})
	}
	return message{f}
}

func headerMsg(v int) message {
	pv := append([]byte{0, 0}, seqBytes(78, 3)...)
	reqIds := []byte(`{"a":1,"b":2}`)
	h, q, n := uint64(5), uint64(17), uint64(3)
	t1, t2 := timeBlob(goodT1), timeBlob(goodT2)
	castor := seqBytes(32, 0x21)
	switch v {
	case 1:
		pv = []byte{}
		reqIds = []byte("null")
		h, q, n = ^uint64(0), ^uint64(0), ^uint64(0)
		t1, t2 = timeBlob(time.Time{}), timeBlob(time.Unix(0, 999999999).In(time.FixedZone("", 5*3600+45*60)))
		castor = []byte{}
	case 2:
		reqIds = []byte(`{}`)
		h, q, n = 0, 0, 0
		t1 = timeBlob(time.Unix(1700000000, 1).In(time.FixedZone("LMT", 53*60+28)))
	}
	return message{
		fB("Hash", 1, seqBytes(32, 0x01)),
		fV("Height", 2, h),
		fB("PreHash", 3, seqBytes(32, 0x02)),
		fB("PreTime", 4, t2),
		fB("ProveValue", 5, pv),
		fV("TotalQN", 6, q),
		fB("CurTime", 7, t1),
		fB("Castor", 8, castor),
		fB("GroupId", 9, seqBytes(32, 0x22)),
		fB("Signature", 10, seqBytes(33, 0x23)),
		fV("Nonce", 11, n),
		fRep("transactions", 12, txHashMsg(0x50).all(), txHashMsg(0x60).all()),
		fB("TxTree", 13, seqBytes(32, 0x03)),
		fB("ReceiptTree", 14, seqBytes(32, 0x04)),
		fB("StateTree", 15, seqBytes(32, 0x05)),
		fB("ExtraData", 16, seqBytes(32, 0x06)),
		fB("Random", 17, seqBytes(33, 0x07)),
		fB("ProveRoot", 18, seqBytes(32, 0x08)),
		fB("EvictedTxs", 19, hashesMsg(2).all()),
		fB("RequestIds", 20, reqIds),
	}
}

func blockMsg(header []byte, txs ...[]byte) message {
	return message{req(fB("Header", 1, header)), fRep("transactions", 2, txs...)}
}

func txSliceMsg(txs ...[]byte) message { return message{fRep("transactions", 1, txs...)} }

func memberMsg() message {
	return message{req(fB("Id", 1, seqBytes(32, 1))), req(fB("PubKey", 2, seqBytes(128, 2)))}
}

func groupHeaderMsg(v int) message {
	ext, ch := "room-1", uint64(12)
	bt := timeBlob(goodT1)
	if v == 1 {
		ext, ch = "", ^uint64(0)
		bt = timeBlob(time.Time{})
	}
	return message{
		fB("Hash", 1, seqBytes(32, 0x31)),
		fB("Parent", 2, seqBytes(32, 0x32)),
		fB("PreGroup", 3, seqBytes(32, 0x33)),
		fB("CreateBlockHash", 4, seqBytes(32, 0x34)),
		fB("BeginTime", 5, bt),
		req(fB("MemberRoot", 6, seqBytes(32, 0x35))),
		req(fV("CreateHeight", 7, ch)),
		fB("Extends", 8, []byte(ext)),
	}
}

func groupMsg(header []byte, v int) message {
	gh := uint64(4)
	if v == 1 {
		gh = ^uint64(0)
	}
	return message{
		req(fB("Header", 1, header)),
		fB("Id", 2, seqBytes(32, 0x41)),
		fB("PubKey", 3, seqBytes(128, 0x42)),
		fB("Signature", 4, seqBytes(33, 0x43)),
		fRep("Members", 5, seqBytes(32, 0x44), seqBytes(32, 0x45), seqBytes(32, 0x46)),
		fV("GroupHeight", 6, gh),
	}
}

// ---------------------------------------------------------------------------
// hostile families

type hostile struct {
	b    []byte
	note string
}

// altWire returns the item encoding field number num with another wire type.
func altWire(num, wt int) item {
	switch wt {
	case wtVarint:
		return item{num: num, wt: wtVarint, v: 1}
	case wtFixed64:
		return item{num: num, wt: wtFixed64, v: 0x0102030405060708}
	case wtFixed32:
		return item{num: num, wt: wtFixed32, v: 0x01020304}
	default:
		return item{num: num, wt: wtBytes, p: []byte{1}}
	}
}

// wrongWire: every field re-encoded with each of the other wire types.
func wrongWire(m message, tagPrefix string) []hostile {
	var out []hostile
	for i, f := range m {
		if len(f.items) == 0 {
			continue
		}
		num, own := f.items[0].num, f.items[0].wt
		for _, wt := range []int{wtVarint, wtFixed64, wtBytes, wtFixed32} {
			if wt == own {
				continue
			}
			c := m.with(m[i].name, altWire(num, wt))
			out = append(out, hostile{c.all(), tagPrefix + "wrongwire=" + f.name + "/" + string(rune('0'+wt))})
		}
		// start-group / end-group markers and a duplicate of the field
		c := m.with(m[i].name, item{num: num, wt: wtSGroup}, item{num: num, wt: wtEGroup})
		out = append(out, hostile{c.all(), tagPrefix + "group-markers=" + f.name})
		c = m.with(m[i].name, append(append([]item{}, f.items...), f.items...)...)
		out = append(out, hostile{c.all(), tagPrefix + "duplicated=" + f.name})
	}
	return out
}

// payloads: every length-delimited field with hostile payloads.
func payloads(m message, tagPrefix string, extra map[string][][]byte) []hostile {
	generic := [][]byte{nil, {0}, {0xff}, seqBytes(31, 1), seqBytes(33, 1), seqBytes(64, 1), seqBytes(65, 1), seqBytes(66, 1),
		[]byte("null"), []byte("{"), []byte(`{"a":-1}`), []byte(`[{"address":-1}]`), []byte(`[null]`), []byte("\xff\xfe"), seqBytes(300, 0)}
	var out []hostile
	for _, f := range m {
		if len(f.items) == 0 || f.items[0].wt != wtBytes {
			continue
		}
		num := f.items[0].num
		ps := append([][]byte{}, generic...)
		ps = append(ps, extra[f.name]...)
		for k, p := range ps {
			c := m.with(f.name, item{num: num, wt: wtBytes, p: p})
			out = append(out, hostile{c.all(), tagPrefix + "payload=" + f.name + "#" + itoa(k)})
		}
	}
	for _, f := range m {
		if len(f.items) == 0 || f.items[0].wt != wtVarint {
			continue
		}
		num := f.items[0].num
		for k, v := range []uint64{0, 1, 0x7fffffff, 0x80000000, 0xffffffff, 1 << 63, ^uint64(0)} {
			c := m.with(f.name, item{num: num, wt: wtVarint, v: v})
			out = append(out, hostile{c.all(), tagPrefix + "varint=" + f.name + "#" + itoa(k)})
		}
	}
	return out
}

// timeBlobs: malformed and boundary encodings of time.Time.MarshalBinary.
func timeBlobs() [][]byte {
	good := timeBlob(goodT1)
	out := [][]byte{nil, {}, {1}, {2}, good[:14], append(append([]byte{}, good...), 0), append(append([]byte{}, good...), 0, 0)}
	bad := append([]byte{}, good...)
	bad[0] = 0
	out = append(out, bad)
	bad = append([]byte{}, good...)
	bad[0] = 3
	out = append(out, bad)
	// version 2 blobs (16 bytes) with every interesting seconds byte
	for _, sec := range []byte{0, 1, 59, 60, 127, 128, 0xc4, 0xc5, 0x9c, 0xff} {
		for _, min := range [][2]byte{{0, 0}, {0xff, 0xff}, {0x80, 0x00}, {0x7f, 0xff}, {0x01, 0xe0}} {
			b := append([]byte{}, good...)
			b[0] = 2
			b[13], b[14] = min[0], min[1]
			b = append(b, sec)
			out = append(out, b)
		}
	}
	// version 1 with extreme offsets / seconds / nanoseconds
	for _, min := range [][2]byte{{0xff, 0xff}, {0x80, 0x00}, {0x7f, 0xff}, {0xff, 0xfe}} {
		b := append([]byte{}, good...)
		b[13], b[14] = min[0], min[1]
		out = append(out, b)
	}
	b := append([]byte{}, good...)
	for i := 1; i <= 8; i++ {
		b[i] = 0xff
	}
	out = append(out, b)
	b = append([]byte{}, good...)
	for i := 9; i <= 12; i++ {
		b[i] = 0xff
	}
	out = append(out, b)
	b = append([]byte{}, good...)
	for i := 1; i <= 8; i++ {
		b[i] = 0
	}
	out = append(out, b)
	b = append([]byte{}, good...)
	b[1] = 0x7f
	for i := 2; i <= 8; i++ {
		b[i] = 0xff
	}
	out = append(out, b)
	return out
}

// mutations of a valid encoding: every single-bit flip and every truncation
// (exhaustive), plus n seeded multi-byte mutations.
func mutations(valid []byte, n int, rng *rand.Rand, tag string) []hostile {
	var out []hostile
	for i := 0; i <= len(valid); i++ {
		out = append(out, hostile{append([]byte{}, valid[:i]...), tag + "trunc@" + itoa(i)})
	}
	for i := 0; i < len(valid)*8; i++ {
		b := append([]byte{}, valid...)
		b[i/8] ^= 1 << uint(i%8)
		out = append(out, hostile{b, tag + "bitflip@" + itoa(i)})
	}
	for k := 0; k < n; k++ {
		out = append(out, hostile{mutate(valid, rng), tag + "mut#" + itoa(k)})
	}
	return out
}

// mutate: one seeded multi-byte mutation of a valid encoding.
func mutate(valid []byte, rng *rand.Rand) []byte {
	b := append([]byte{}, valid...)
	if len(b) == 0 {
		return b
	}
	switch rng.Intn(5) {
	case 0: // several byte overwrites
		for j := 0; j < 1+rng.Intn(4); j++ {
			b[rng.Intn(len(b))] = byte(rng.Intn(256))
		}
	case 1: // delete a chunk
		i := rng.Intn(len(b))
		l := 1 + rng.Intn(8)
		if i+l > len(b) {
			l = len(b) - i
		}
		b = append(b[:i], b[i+l:]...)
	case 2: // insert random bytes
		i := rng.Intn(len(b) + 1)
		ins := make([]byte, 1+rng.Intn(6))
		rng.Read(ins)
		b = append(b[:i], append(ins, b[i:]...)...)
	case 3: // splice two parts of the message
		i, j := rng.Intn(len(b)), rng.Intn(len(b))
		b = append(append([]byte{}, b[:i]...), b[j:]...)
	case 4: // corrupt a length / tag byte to a big varint
		i := rng.Intn(len(b))
		b[i] |= 0x80
		if rng.Intn(2) == 0 && i+1 < len(b) {
			b[i+1] = 0xff
		}
	}
	return b
}

// randomBytes: n seeded random strings, half of them starting with a plausible tag.
func randomBytes(n int, rng *rand.Rand, maxField int) []hostile {
	out := make([]hostile, 0, n)
	for k := 0; k < n; k++ {
		l := rng.Intn(48)
		if rng.Intn(8) == 0 {
			l = rng.Intn(400)
		}
		b := make([]byte, l)
		rng.Read(b)
		if l > 0 && rng.Intn(2) == 0 {
			b[0] = byte((1+rng.Intn(maxField))<<3 | []int{0, 2, 2, 2, 1, 5}[rng.Intn(6)])
			if l > 1 && b[0]&7 == 2 && rng.Intn(2) == 0 {
				b[1] = byte(l - 2)
			}
		}
		out = append(out, hostile{b, "random#" + itoa(k)})
	}
	return out
}

func itoa(i int) string {
	if i == 0 {
		return "0"
	}
	neg := i < 0
	if neg {
		i = -i
	}
	var b [20]byte
	p := len(b)
	for i > 0 {
		p--
		b[p] = byte('0' + i%10)
		i /= 10
	}
	if neg {
		p--
		b[p] = '-'
	}
	return string(b[p:])
}
