package main

// Content comparison of codec values. Each diffX returns the name of the first
// differing field ("" when equal) and a short description.

import (
	"bytes"
	"encoding/json"
	"fmt"
	"math/big"
	"reflect"
	"time"

	"com.tuntun.rangers/node/src/common"
	"com.tuntun.rangers/node/src/middleware/types"
)

func short(v interface{}) string {
	s := fmt.Sprintf("%v", v)
	if len(s) > 120 {
		s = s[:120] + "…"
	}
	return s
}

// bytes fields: nil and empty are different JSON (null / "") → compared exactly.
func diffBytes(a, b []byte) bool { return (a == nil) != (b == nil) || !bytes.Equal(a, b) }

func timeJSON(t time.Time) string {
	b, err := t.MarshalJSON()
	if err != nil {
		return "error:" + err.Error()
	}
	return string(b)
}

// times: same instant AND same JSON rendering (the header hash is over JSON).
func diffTime(a, b time.Time) bool { return !a.Equal(b) || timeJSON(a) != timeJSON(b) }

// negSecOffset: zone offset negative with a non-zero seconds part. go1.23's
// time.UnmarshalBinary (version 2 blobs) reads the seconds byte as unsigned, so
// MarshalBinary/UnmarshalBinary is not an identity on such times.
func negSecOffset(t time.Time) bool {
	_, off := t.Zone()
	return off%60 < 0
}

const negSecField = "time-negative-second-offset"

func timeField(name string, a time.Time) string {
	if negSecOffset(a) {
		return negSecField
	}
	return name
}

func diffBig(a, b *big.Int) bool {
	if a == nil || b == nil {
		return a != b
	}
	return a.Cmp(b) != 0
}

func jsonOf(v interface{}) string {
	b, err := json.Marshal(v)
	if err != nil {
		return "error:" + err.Error()
	}
	return string(b)
}

func diffHeader(a, b *types.BlockHeader) (string, string) {
	if a == nil || b == nil {
		if a != b {
			return "nil", fmt.Sprintf("one header is nil: %v / %v", a == nil, b == nil)
		}
		return "", ""
	}
	switch {
	case a.Hash != b.Hash:
		return "Hash", short(a.Hash) + " != " + short(b.Hash)
	case a.Height != b.Height:
		return "Height", fmt.Sprint(a.Height, " != ", b.Height)
	case a.PreHash != b.PreHash:
		return "PreHash", ""
	case diffTime(a.PreTime, b.PreTime):
		return timeField("PreTime", a.PreTime), timeJSON(a.PreTime) + " / " + timeJSON(b.PreTime) + fmt.Sprintf(" equal=%v", a.PreTime.Equal(b.PreTime))
	case diffBig(a.ProveValue, b.ProveValue):
		return "ProveValue", short(a.ProveValue) + " != " + short(b.ProveValue)
	case a.TotalQN != b.TotalQN:
		return "TotalQN", fmt.Sprint(a.TotalQN, " != ", b.TotalQN)
	case diffTime(a.CurTime, b.CurTime):
		return timeField("CurTime", a.CurTime), timeJSON(a.CurTime) + " / " + timeJSON(b.CurTime) + fmt.Sprintf(" equal=%v", a.CurTime.Equal(b.CurTime))
	case diffBytes(a.Castor, b.Castor):
		return "Castor", fmt.Sprintf("%#v != %#v", a.Castor, b.Castor)
	case diffBytes(a.GroupId, b.GroupId):
		return "GroupId", fmt.Sprintf("%#v != %#v", a.GroupId, b.GroupId)
	case diffBytes(a.Signature, b.Signature):
		return "Signature", fmt.Sprintf("%#v != %#v", a.Signature, b.Signature)
	case a.Nonce != b.Nonce:
		return "Nonce", fmt.Sprint(a.Nonce, " != ", b.Nonce)
	case (a.RequestIds == nil) != (b.RequestIds == nil) || !reflect.DeepEqual(a.RequestIds, b.RequestIds):
		return "RequestIds", short(jsonOf(a.RequestIds)) + " != " + short(jsonOf(b.RequestIds))
	case (a.Transactions == nil) != (b.Transactions == nil) || len(a.Transactions) != len(b.Transactions):
		return "Transactions", fmt.Sprintf("nil=%v len=%d / nil=%v len=%d", a.Transactions == nil, len(a.Transactions), b.Transactions == nil, len(b.Transactions))
	case a.TxTree != b.TxTree:
		return "TxTree", ""
	case a.ReceiptTree != b.ReceiptTree:
		return "ReceiptTree", ""
	case a.StateTree != b.StateTree:
		return "StateTree", ""
	case diffBytes(a.ExtraData, b.ExtraData):
		return "ExtraData", fmt.Sprintf("%#v != %#v", a.ExtraData, b.ExtraData)
	case diffBytes(a.Random, b.Random):
		return "Random", fmt.Sprintf("%#v != %#v", a.Random, b.Random)
	case (a.EvictedTxs == nil) != (b.EvictedTxs == nil) || len(a.EvictedTxs) != len(b.EvictedTxs):
		return "EvictedTxs", fmt.Sprintf("nil=%v len=%d / nil=%v len=%d", a.EvictedTxs == nil, len(a.EvictedTxs), b.EvictedTxs == nil, len(b.EvictedTxs))
	}
	for i := range a.Transactions {
		if a.Transactions[i] != b.Transactions[i] {
			return "Transactions", fmt.Sprintf("element %d differs", i)
		}
	}
	for i := range a.EvictedTxs {
		if a.EvictedTxs[i] != b.EvictedTxs[i] {
			return "EvictedTxs", fmt.Sprintf("element %d differs", i)
		}
	}
	if x, y := a.ToString(), b.ToString(); x != y {
		return "ToString", short(x) + " != " + short(y)
	}
	if x, y := jsonOf(a), jsonOf(b); x != y {
		return "JSON", short(x) + " != " + short(y)
	}
	if x, y := a.GenHash(), b.GenHash(); x != y {
		return "GenHash", x.Hex() + " != " + y.Hex()
	}
	return "", ""
}

func signBytes(s *common.Sign) []byte {
	if s == nil {
		return nil
	}
	return s.Bytes()
}

// diffTx ignores SocketRequestId: it is the local websocket correlation id,
// transactionToPb never puts it on the wire (see the driver's assumptions).
func diffTx(a, b *types.Transaction) (string, string) {
	if a == nil || b == nil {
		if a != b {
			return "nil", "one transaction is nil"
		}
		return "", ""
	}
	switch {
	case a.Source != b.Source:
		return "Source", fmt.Sprintf("%q != %q", a.Source, b.Source)
	case a.Target != b.Target:
		return "Target", fmt.Sprintf("%q != %q", a.Target, b.Target)
	case a.Type != b.Type:
		return "Type", fmt.Sprint(a.Type, " != ", b.Type)
	case a.Time != b.Time:
		return "Time", fmt.Sprintf("%q != %q", a.Time, b.Time)
	case a.Data != b.Data:
		return "Data", short(fmt.Sprintf("%q != %q", a.Data, b.Data))
	case a.ExtraData != b.ExtraData:
		return "ExtraData", short(fmt.Sprintf("%q != %q", a.ExtraData, b.ExtraData))
	case a.ExtraDataType != b.ExtraDataType:
		return "ExtraDataType", fmt.Sprint(a.ExtraDataType, " != ", b.ExtraDataType)
	case a.SubHash != b.SubHash:
		return "SubHash", ""
	case a.Hash != b.Hash:
		return "Hash", a.Hash.Hex() + " != " + b.Hash.Hex()
	case (a.Sign == nil) != (b.Sign == nil) || !bytes.Equal(signBytes(a.Sign), signBytes(b.Sign)):
		return "Sign", fmt.Sprintf("%x != %x", signBytes(a.Sign), signBytes(b.Sign))
	case a.Nonce != b.Nonce:
		return "Nonce", fmt.Sprint(a.Nonce, " != ", b.Nonce)
	case a.RequestId != b.RequestId:
		return "RequestId", fmt.Sprint(a.RequestId, " != ", b.RequestId)
	case a.ChainId != b.ChainId:
		return "ChainId", fmt.Sprintf("%q != %q", a.ChainId, b.ChainId)
	}
	// sub transactions: equality of the JSON rendering (UserData.Hash is over JSON;
	// nil list = null, empty list = [])
	if x, y := jsonOf(a.SubTransactions), jsonOf(b.SubTransactions); x != y {
		return "SubTransactions", short(x) + " != " + short(y)
	}
	if x, y := a.GenHash(), b.GenHash(); x != y {
		return "GenHash", x.Hex() + " != " + y.Hex()
	}
	return "", ""
}

// diffBlock: the transaction list is compared by length and content (no hash or
// JSON identity depends on nil-vs-empty of Block.Transactions).
func diffBlock(a, b *types.Block) (string, string) {
	if a == nil || b == nil {
		if a != b {
			return "nil", "one block is nil"
		}
		return "", ""
	}
	if f, d := diffHeader(a.Header, b.Header); f != "" {
		return "Header." + f, d
	}
	if len(a.Transactions) != len(b.Transactions) {
		return "Transactions", fmt.Sprintf("len %d != %d", len(a.Transactions), len(b.Transactions))
	}
	for i := range a.Transactions {
		if f, d := diffTx(a.Transactions[i], b.Transactions[i]); f != "" {
			return "Transactions." + f, fmt.Sprintf("[%d] %s", i, d)
		}
	}
	return "", ""
}

// diffGroup compares the wire content. ReadyHeight/WorkHeight/DismissHeight are
// not compared: they have no field in x.proto and groupChain.AddGroup derives
// them from CreateHeight on every node.
func diffGroup(a, b *types.Group) (string, string) {
	if a == nil || b == nil {
		if a != b {
			return "nil", "one group is nil"
		}
		return "", ""
	}
	ah, bh := a.Header, b.Header
	if ah == nil || bh == nil {
		if ah != bh {
			return "Header.nil", "one group header is nil"
		}
	} else {
		switch {
		case ah.Hash != bh.Hash:
			return "Header.Hash", ah.Hash.Hex() + " != " + bh.Hash.Hex()
		case diffBytes(ah.Parent, bh.Parent):
			return "Header.Parent", fmt.Sprintf("%#v != %#v", ah.Parent, bh.Parent)
		case diffBytes(ah.PreGroup, bh.PreGroup):
			return "Header.PreGroup", fmt.Sprintf("%#v != %#v", ah.PreGroup, bh.PreGroup)
		case diffBytes(ah.CreateBlockHash, bh.CreateBlockHash):
			return "Header.CreateBlockHash", fmt.Sprintf("%#v != %#v", ah.CreateBlockHash, bh.CreateBlockHash)
		case diffTime(ah.BeginTime, bh.BeginTime):
			name := timeField("BeginTime", ah.BeginTime)
			if _, err := ah.BeginTime.MarshalBinary(); err != nil {
				// GroupToPbHeader drops the error of Time.MarshalBinary and sends no BeginTime at all
				return "Header.BeginTime-marshal-error-ignored", timeJSON(ah.BeginTime) + " / " + timeJSON(bh.BeginTime) + " (" + err.Error() + ")"
			}
			return "Header." + name, timeJSON(ah.BeginTime) + " / " + timeJSON(bh.BeginTime)
		case ah.MemberRoot != bh.MemberRoot:
			return "Header.MemberRoot", ""
		case ah.CreateHeight != bh.CreateHeight:
			return "Header.CreateHeight", fmt.Sprint(ah.CreateHeight, " != ", bh.CreateHeight)
		case ah.Extends != bh.Extends:
			return "Header.Extends", fmt.Sprintf("%q != %q", ah.Extends, bh.Extends)
		case ah.GenHash() != bh.GenHash():
			return "Header.GenHash", ah.GenHash().Hex() + " != " + bh.GenHash().Hex()
		}
	}
	switch {
	case diffBytes(a.Id, b.Id):
		return "Id", fmt.Sprintf("%#v != %#v", a.Id, b.Id)
	case diffBytes(a.PubKey, b.PubKey):
		return "PubKey", fmt.Sprintf("%#v != %#v", a.PubKey, b.PubKey)
	case diffBytes(a.Signature, b.Signature):
		return "Signature", fmt.Sprintf("%#v != %#v", a.Signature, b.Signature)
	case a.GroupHeight != b.GroupHeight:
		return "GroupHeight", fmt.Sprint(a.GroupHeight, " != ", b.GroupHeight)
	case len(a.Members) != len(b.Members):
		return "Members", fmt.Sprintf("len %d != %d", len(a.Members), len(b.Members))
	}
	for i := range a.Members {
		if !bytes.Equal(a.Members[i], b.Members[i]) {
			return "Members", fmt.Sprintf("[%d] differs", i)
		}
	}
	return "", ""
}

func diffMember(a, b *types.Member) (string, string) {
	if a == nil || b == nil {
		if a != b {
			return "nil", "one member is nil"
		}
		return "", ""
	}
	switch {
	case !bytes.Equal(a.Id, b.Id):
		return "Id", fmt.Sprintf("%#v != %#v", a.Id, b.Id)
	case !bytes.Equal(a.PubKey, b.PubKey):
		return "PubKey", fmt.Sprintf("%#v != %#v", a.PubKey, b.PubKey)
	}
	return "", ""
}
