package main

// The booted part: a child process boots the node core (env.BootCore) and
//   - round-trips values the node produced itself (genesis block, top header,
//     cast blocks, the groups of the group chain / genesis info),
//   - drives the exported consensus decoders,
//   - drives the unexported core decoders through the exported receive
//     handlers (core.SyncProcessor.HandleNetMessage, core.ChainHandler).

import (
	"errors"
	"fmt"
	"math/big"
	"math/rand"
	"strings"
	"sync"
	"time"

	"com.tuntun.rangers/node/src/common"
	"com.tuntun.rangers/node/src/consensus/base"
	"com.tuntun.rangers/node/src/consensus/groupsig"
	"com.tuntun.rangers/node/src/consensus/model"
	cnet "com.tuntun.rangers/node/src/consensus/net"
	"com.tuntun.rangers/node/src/core"
	"com.tuntun.rangers/node/src/middleware/notify"
	pb "com.tuntun.rangers/node/src/middleware/pb"
	"com.tuntun.rangers/node/src/middleware/types"
	"com.tuntun.rangers/node/src/utility"
	"github.com/golang/protobuf/proto"

	"verifharness/env"
	"verifharness/mon"
)

// stub processors: the consensus decoders are tested, not the consensus.
type stubGroupCreate struct{}

func (stubGroupCreate) OnMessageCreateGroupPing(msg *model.CreateGroupPingMessage)           {}
func (stubGroupCreate) OnMessageCreateGroupPong(msg *model.CreateGroupPongMessage)           {}
func (stubGroupCreate) OnMessageParentGroupConsensus(msg *model.ParentGroupConsensusMessage) {}
func (stubGroupCreate) OnMessageParentGroupConsensusSign(msg *model.ParentGroupConsensusSignMessage) {
}
func (stubGroupCreate) OnMessageGroupInit(msg *model.GroupInitMessage)                   {}
func (stubGroupCreate) OnMessageSharePiece(msg *model.SharePieceMessage)                 {}
func (stubGroupCreate) OnMessageSignPK(msg *model.SignPubKeyMessage)                     {}
func (stubGroupCreate) OnMessageGroupInited(msg *model.GroupInitedMessage)               {}
func (stubGroupCreate) OnMessageSharePieceReq(msg *model.ReqSharePieceMessage)           {}
func (stubGroupCreate) OnMessageSharePieceResponse(msg *model.ResponseSharePieceMessage) {}
func (stubGroupCreate) OnMessageSignPKReq(msg *model.SignPubkeyReqMessage)               {}

type stubMining struct{}

func (stubMining) Ready() bool                                       { return true }
func (stubMining) OnMessageCast(msg *model.ConsensusCastMessage)     {}
func (stubMining) OnMessageVerify(msg *model.ConsensusVerifyMessage) {}

var bootOnce sync.Once

func bootNode() {
	bootOnce.Do(func() {
		env.BootCore(env.Forks{}, nil)
		common.SetBlockHeight(1)
		cnet.MessageHandler.Init(stubGroupCreate{}, stubMining{}) // initialises the package logger the decoders log through
	})
}

var errRejected = errors.New("protobuf decoding fails")

type handled struct{}

func has(stack string, frames ...string) bool {
	for _, f := range frames {
		if strings.Contains(stack, f) {
			return true
		}
	}
	return false
}

func syncEntry(topic string, pbNew func() proto.Message, mk func(b []byte) notify.Message, decoder string) *parserDef {
	return &parserDef{name: "core.sync[" + topic + "]", booted: true, typ: "handler",
		fn: func(b []byte) (interface{}, error) {
			decodable := proto.Unmarshal(b, pbNew()) == nil
			core.SyncProcessor.HandleNetMessage(topic, mk(b))
			if !decodable {
				return nil, errRejected
			}
			return handled{}, nil
		},
		inDecoder: func(stack string) bool { return has(stack, "core."+decoder+"(") },
	}
}

var bootedOnce sync.Once
var bootedList []*parserDef

func bootedParsers() []*parserDef {
	bootedOnce.Do(func() {
		bootedList = []*parserDef{
			{name: "UnMarshalConsensusCastMessage", booted: true, typ: "consensus",
				fn: func(b []byte) (interface{}, error) {
					v, e := cnet.UnMarshalConsensusCastMessage(b)
					if v == nil {
						return nil, e
					}
					return v, e
				}},
			{name: "UnMarshalConsensusVerifyMessage", booted: true, typ: "consensus",
				fn: func(b []byte) (interface{}, error) {
					v, e := cnet.UnMarshalConsensusVerifyMessage(b)
					if v == nil {
						return nil, e
					}
					return v, e
				}},
			syncEntry(notify.TopBlockInfo, func() proto.Message { return new(pb.ChainInfo) },
				func(b []byte) notify.Message { return &notify.ChainInfoMessage{ChainInfo: b, Peer: "peer"} }, "unMarshalChainInfo"),
			syncEntry(notify.BlockChainPieceReq, func() proto.Message { return new(pb.BlockChainPieceReq) },
				func(b []byte) notify.Message {
					return &notify.BlockChainPieceReqMessage{BlockChainPieceReq: b, Peer: "peer"}
				}, "unMarshalBlockChainPieceReq"),
			syncEntry(notify.BlockChainPiece, func() proto.Message { return new(pb.BlockChainPiece) },
				func(b []byte) notify.Message {
					return &notify.BlockChainPieceMessage{BlockChainPieceByte: b, Peer: "peer"}
				}, "unMarshalBlockChainPiece"),
			syncEntry(notify.BlockReq, func() proto.Message { return new(pb.BlockReq) },
				func(b []byte) notify.Message { return &notify.BlockReqMessage{ReqInfoByte: b, Peer: "peer"} }, "unMarshalBlockSyncReq"),
			syncEntry(notify.BlockResponse, func() proto.Message { return new(pb.BlockMsgResponse) },
				func(b []byte) notify.Message { return &notify.BlockResponseMessage{BlockResponseByte: b, Peer: "peer"} }, "unMarshalBlockMsgResponse"),
			syncEntry(notify.GroupReq, func() proto.Message { return new(pb.GroupReq) },
				func(b []byte) notify.Message { return &notify.GroupReqMessage{ReqInfoByte: b, Peer: "peer"} }, "unMarshalGroupSyncReq"),
			syncEntry(notify.GroupResponse, func() proto.Message { return new(pb.GroupMsgResponse) },
				func(b []byte) notify.Message { return &notify.GroupResponseMessage{GroupResponseByte: b, Peer: "peer"} }, "unMarshalGroupMsgResponse"),
			{name: "core.chain[" + notify.TransactionReq + "]", booted: true, typ: "handler",
				fn: func(b []byte) (interface{}, error) {
					decodable := proto.Unmarshal(b, new(pb.TransactionRequestMessage)) == nil
					core.ChainHandler{}.HandleNetMessage(notify.TransactionReq, &notify.TransactionReqMessage{TransactionReqByte: b, Peer: "peer"})
					if !decodable {
						return nil, errRejected
					}
					return handled{}, nil
				},
				inDecoder: func(stack string) bool { return has(stack, "core.unMarshalTransactionRequestMessage(") }},
			{name: "core.chain[" + notify.NewBlock + "]", booted: true, typ: "handler",
				fn: func(b []byte) (interface{}, error) {
					// only inputs that cannot reach AddBlockOnChain: UnMarshalBlock fails, panics, or returns a block without header
					complete := false
					func() {
						defer func() { recover() }()
						blk, err := types.UnMarshalBlock(b)
						complete = err == nil && blk != nil && blk.Header != nil
					}()
					if complete {
						return nil, errRejected
					}
					decodable := proto.Unmarshal(b, new(pb.Block)) == nil
					core.ChainHandler{}.HandleNetMessage(notify.NewBlock, &notify.NewBlockMessage{BlockByte: b, Peer: "peer"})
					if !decodable {
						return nil, errRejected
					}
					return handled{}, nil
				},
				inDecoder: func(stack string) bool { return has(stack, "types.UnMarshalBlock(") }},
		}
	})
	return bootedList
}

func bootedByName(name string) *parserDef {
	for _, p := range bootedParsers() {
		if p.name == name {
			return p
		}
	}
	panic("no booted parser " + name)
}

// ---------------------------------------------------------------------------
// messages of the consensus / sync layer

// consensus SignData: DataSign is a serialised groupsig.Signature, SignMember a groupsig.ID
func consSignMsg() message {
	sk := groupsig.NewSeckeyFromRand(base.RandFromBytes([]byte("c09")))
	sig := groupsig.Sign(*sk, []byte("c09 message"))
	id := groupsig.NewIDFromPubkey(*groupsig.GeneratePubkey(*sk))
	return message{
		req(fB("DataHash", 1, seqBytes(32, 0x51))),
		req(fB("DataSign", 2, sig.Serialize())),
		req(fB("SignMember", 3, id.Serialize())),
		fV("Version", 4, 1),
	}
}

// core SignData: DataSign is a 65 byte secp256k1 signature, SignMember the hex id string
func coreSignMsg() message {
	return message{
		req(fB("DataHash", 1, seqBytes(32, 0x51))),
		req(fB("DataSign", 2, seqBytes(65, 0x01))),
		req(fB("SignMember", 3, []byte("0x1111111111111111111111111111111111111111"))),
		fV("Version", 4, 0),
	}
}

var signPayloads = [][]byte{{}, seqBytes(1, 9), seqBytes(31, 9), seqBytes(32, 9), seqBytes(33, 9), seqBytes(64, 9), seqBytes(65, 9), seqBytes(66, 9), seqBytes(130, 9)}

// signVariants: hostile encodings of a SignData message.
func signVariants(s message) []hostile {
	var out []hostile
	for mask := uint64(0); mask <= s.full(); mask++ {
		out = append(out, hostile{s.enc(mask), "SignData missing=" + s.missing(mask)})
	}
	out = append(out, wrongWire(s, "SignData ")...)
	out = append(out, payloads(s, "SignData ", map[string][][]byte{"DataSign": signPayloads, "SignMember": signPayloads})...)
	return out
}

// hostileHeaders: header encodings that matter to the callers of PbToBlockHeader.
func hostileHeaders() []hostile {
	var out []hostile
	m := headerMsg(0)
	for _, mask := range singlesDoubles(len(m), 0, nil) {
		out = append(out, hostile{m.enc(mask), "BlockHeader missing=" + m.missing(mask)})
	}
	for i, tb := range timeBlobs() {
		out = append(out, hostile{m.with("PreTime", item{num: 4, wt: wtBytes, p: tb}).all(), fmt.Sprintf("BlockHeader PreTime=blob#%d", i)})
		out = append(out, hostile{m.with("CurTime", item{num: 7, wt: wtBytes, p: tb}).all(), fmt.Sprintf("BlockHeader CurTime=blob#%d", i)})
	}
	return out
}

func hostileGroups() []hostile {
	var out []hostile
	gh := groupHeaderMsg(0)
	for hm := uint64(0); hm <= gh.full(); hm++ {
		g := groupMsg(gh.enc(hm), 0)
		for _, gm := range []uint64{g.full(), g.full() &^ 32, 1, 0} {
			out = append(out, hostile{g.enc(gm), "Group missing=" + g.missing(gm) + " header-missing=" + gh.missing(hm)})
		}
	}
	g := groupMsg(gh.all(), 0)
	for gm := uint64(0); gm <= g.full(); gm++ {
		out = append(out, hostile{g.enc(gm), "Group missing=" + g.missing(gm)})
	}
	return out
}

// family runs the standard families for one top-level message m through p.
// nested maps a field name to hostile encodings of the nested message in that field.
func (e *engine) family(p *parserDef, m message, label string, nested map[string][]hostile, nMut, nRand int) {
	if len(m) <= 12 {
		e.subsets(p, m, label, allMasks(len(m)), nil)
	} else {
		e.subsets(p, m, label, singlesDoubles(len(m), 500, e.r.Rand("family", label)), nil)
	}
	hs := append(wrongWire(m, label+" "), payloads(m, label+" ", nil)...)
	for name, list := range nested {
		i := m.index(name)
		num := m[i].items[0].num
		for _, h := range list {
			hs = append(hs, hostile{m.with(name, item{num: num, wt: wtBytes, p: h.b}).all(), label + "{" + name + ": " + h.note + "}"})
		}
	}
	e.runList(p, hs, nil)
	valid := m.all()
	e.runList(p, mutations(valid, 0, nil, label+" "), nil)
	e.runGen(p, "mut", nMut, func(rng *rand.Rand, k int) hostile { return mutations1(valid, rng, label+" ", k) })
	e.runGen(p, "random", nRand, func(rng *rand.Rand, k int) hostile { return randomBytes(1, rng, 8)[0] })
}

func (e *engine) hostileBooted() {
	r := e.r
	nMut, nRand := r.Pick(1500, 200000), r.Pick(1500, 200000)
	cs, ks := consSignMsg(), coreSignMsg()
	csV, ksV := signVariants(cs), signVariants(ks)
	hdrs, grps := hostileHeaders(), hostileGroups()
	goodHdr, goodTx := headerMsg(0).all(), txMsg(0).all()

	// consensus (exported decoders)
	cast := message{req(fB("Bh", 1, goodHdr)), fB("GroupID", 2, seqBytes(32, 1)), req(fB("Sign", 3, cs.all())), fRep("ProveHash", 4, seqBytes(32, 2), seqBytes(32, 3))}
	e.family(bootedByName("UnMarshalConsensusCastMessage"), cast, "ConsensusCastMessage", map[string][]hostile{"Bh": hdrs, "Sign": csV}, nMut, nRand)
	sk := groupsig.NewSeckeyFromRand(base.RandFromBytes([]byte("c09-r")))
	rs := groupsig.Sign(*sk, []byte("random"))
	verify := message{req(fB("BlockHash", 1, seqBytes(32, 1))), req(fB("RandomSign", 2, rs.Serialize())), req(fB("Sign", 3, cs.all()))}
	e.family(bootedByName("UnMarshalConsensusVerifyMessage"), verify, "ConsensusVerifyMessage",
		map[string][]hostile{"Sign": csV, "RandomSign": {{nil, "empty"}, {seqBytes(1, 1), "1 byte"}, {seqBytes(32, 1), "32 bytes"}, {seqBytes(33, 0xff), "33 x ff"}, {seqBytes(64, 1), "64 bytes"}, {seqBytes(65, 1), "65 bytes"}}}, nMut, nRand)

	// core sync messages
	chainInfo := message{req(fB("TopBlockHash", 1, seqBytes(32, 1))), req(fV("TotalQn", 2, 5)), req(fV("TopBlockHeight", 3, 7)), req(fB("PreHash", 4, seqBytes(32, 2))),
		req(fV("TopGroupHeight", 5, 1)), req(fB("SignInfo", 6, ks.all()))}
	e.family(bootedByName("core.sync["+notify.TopBlockInfo+"]"), chainInfo, "ChainInfo", map[string][]hostile{"SignInfo": ksV}, nMut, nRand)
	heightReq := message{req(fV("Height", 1, 3)), req(fB("SignInfo", 2, ks.all()))}
	for _, t := range []string{notify.BlockChainPieceReq, notify.BlockReq, notify.GroupReq} {
		e.family(bootedByName("core.sync["+t+"]"), heightReq, "HeightReq", map[string][]hostile{"SignInfo": ksV}, nMut, nRand)
	}
	piece := message{fRep("BlockHeaders", 1, goodHdr, headerMsg(2).all()), req(fB("TopHeader", 2, goodHdr)), req(fB("SignInfo", 3, ks.all()))}
	e.family(bootedByName("core.sync["+notify.BlockChainPiece+"]"), piece, "BlockChainPiece",
		map[string][]hostile{"BlockHeaders": hdrs, "TopHeader": hdrs, "SignInfo": ksV}, nMut, nRand)
	var blks []hostile
	for _, h := range hdrs {
		blks = append(blks, hostile{blockMsg(h.b, goodTx).all(), "Block{Header: " + h.note + "}"})
	}
	tm := txMsg(0)
	for i := range tm {
		blks = append(blks, hostile{blockMsg(goodHdr, tm.enc(tm.full()&^(1<<uint(i)))).all(), "Block{tx missing=" + tm[i].name + "}"})
	}
	blks = append(blks, hostile{blockMsg(goodHdr).enc(2), "Block missing=Header"}, hostile{nil, "Block empty"})
	resp := message{req(fV("IsLast", 1, 1)), fB("Block", 2, blockMsg(goodHdr, goodTx).all()), req(fB("SignInfo", 3, ks.all()))}
	e.family(bootedByName("core.sync["+notify.BlockResponse+"]"), resp, "BlockMsgResponse", map[string][]hostile{"Block": blks, "SignInfo": ksV}, nMut, nRand)
	gresp := message{req(fV("IsLast", 1, 0)), fB("Group", 2, groupMsg(groupHeaderMsg(0).all(), 0).all()), req(fB("SignInfo", 3, ks.all()))}
	e.family(bootedByName("core.sync["+notify.GroupResponse+"]"), gresp, "GroupMsgResponse", map[string][]hostile{"Group": grps, "SignInfo": ksV}, nMut, nRand)

	// core chain handler
	treq := message{fRep("TransactionHashes", 1, txHashMsg(1).all(), txHashMsg(3).all()), req(fB("CurrentBlockHash", 2, seqBytes(32, 1))), req(fV("BlockHeight", 3, 9)), req(fB("BlockPv", 4, seqBytes(80, 1)))}
	e.family(bootedByName("core.chain["+notify.TransactionReq+"]"), treq, "TransactionRequestMessage",
		map[string][]hostile{"TransactionHashes": {{txHashMsg(1).enc(0), "empty"}, {txHashMsg(1).enc(1), "no subHash"}, {seqBytes(40, 0x0a), "garbage"}}}, nMut, nRand)
	nb := bootedByName("core.chain[" + notify.NewBlock + "]")
	e.runList(nb, blks, nil)
	e.runList(nb, mutations(blockMsg(goodHdr, goodTx).all(), 0, nil, "Block "), nil)
	e.runGen(nb, "random", nRand, func(rng *rand.Rand, k int) hostile { return randomBytes(1, rng, 4)[0] })
}

// ---------------------------------------------------------------------------
// values produced by the node itself

func nodeValues(e *engine) {
	r := e.r
	l := lcnt{}
	c := Case{Kind: "node"}
	hd, bk, gp := codecOf("header"), codecOf("block"), codecOf("group")
	chain := core.GetBlockChain()
	for _, local := range []string{"UTC", "Asia/Shanghai"} {
		setLocal(local)
		c.Local = local
		if g := chain.QueryBlock(0); g != nil {
			c.Note = "genesis block"
			roundTrip(r, bk, g, true, c, l)
			roundTrip(r, hd, g.Header, true, c, l)
			l["node_values_roundtrip"] += 2
		}
		if top := chain.TopBlock(); top != nil {
			c.Note = "top header"
			roundTrip(r, hd, top, true, c, l)
			l["node_values_roundtrip"]++
		}
		if h0 := chain.QueryBlockHeaderByHeight(uint64(0), true); h0 != nil {
			c.Note = "header 0 read back from the store"
			roundTrip(r, hd, h0, true, c, l)
			l["node_values_roundtrip"]++
		}
		// blocks cast by the node on top of the current head
		top := chain.TopBlock()
		for i := 0; i < 4 && top != nil; i++ {
			pv := make([]byte, 80)
			r.Rand("node-prove", i).Read(pv)
			for k := 0; k < i; k++ {
				pv[k] = 0
			}
			ts := utility.GetTime()
			if i%2 == 1 {
				ts = ts.In(time.FixedZone("CST", 8*3600))
			}
			bh, ok := chain.CastBlock(ts, top.Height+1+uint64(i), new(big.Int).SetBytes(pv), common.Hash{}, uint64(i+1), seqBytes(32, 1), seqBytes(32, 2))
			if !ok {
				r.Note("CastBlock refused at height %d", top.Height+1+uint64(i))
				continue
			}
			c.Note = fmt.Sprintf("header of block cast at height %d", bh.Height)
			h := bh
			roundTrip(r, hd, &h, true, c, l)
			l["node_values_roundtrip"]++
			l["node_cast_headers"]++
			var blk *types.Block
			for try := 0; try < 200 && blk == nil; try++ {
				blk = chain.GenerateBlock(bh)
				if blk == nil {
					time.Sleep(5 * time.Millisecond)
				}
			}
			if blk != nil {
				c.Note = fmt.Sprintf("block generated from the header cast at height %d", bh.Height)
				roundTrip(r, bk, blk, true, c, l)
				l["node_values_roundtrip"]++
				l["node_cast_blocks"]++
			}
		}
		gc := core.GetGroupChain()
		seen := 0
		for h := uint64(0); h <= gc.Count() && h < 16; h++ {
			if g := gc.GetGroupByHeight(h); g != nil {
				c.Note = fmt.Sprintf("group at height %d of the group chain", h)
				roundTrip(r, gp, g, true, c, l)
				seen++
			}
		}
		if g := gc.LastGroup(); g != nil {
			c.Note = "last group of the group chain"
			roundTrip(r, gp, g, true, c, l)
			seen++
		}
		for i, gi := range (&env.Helper{}).GenerateGenesisInfo() {
			g := gi.Group
			c.Note = fmt.Sprintf("genesis info group %d", i)
			roundTrip(r, gp, &g, true, c, l)
			seen++
		}
		l["node_values_roundtrip"] += int64(seen)
		l["node_groups"] += int64(seen)
	}
	setLocal("UTC")
	e.merge(l)
}

func childMain(r *mon.Run, args []string) {
	t0 := time.Now()
	bootNode()
	e := newEngine(r)
	e.workers = 1
	nodeValues(e)
	e.flush()
	r.FlushChild()
	t1 := time.Now()
	e.hostileBooted()
	t2 := time.Now()
	e.reportPanics()
	e.flush()
	r.Note("timing (informative, child): boot+node values %.1fs, hostile %.1fs, shrinking %.1fs", t1.Sub(t0).Seconds(), t2.Sub(t1).Seconds(), time.Since(t2).Seconds())
	r.Count("booted_child_finished", 1)
	r.Finish(mon.Coverage{})
}
