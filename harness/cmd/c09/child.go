package main

// The booted part: a child process boots the node core (env.BootCore) and
//   - round-trips values the node produced itself (genesis block, top header,
//     cast blocks, the groups of the group chain / genesis info),
//   - drives the exported consensus decoders,
//   - drives the unexported core decoders through the exported receive
//     handlers (core.SyncProcessor.HandleNetMessage, core.ChainHandler).

import (
	"errors"
	"fmt"
	"io/ioutil"
	"math/big"
	"math/rand"
	"strconv"
	"strings"
	"sync"
	"time"

	"com.tuntun.rangers/node/src/common"
	"com.tuntun.rangers/node/src/consensus/base"
	"com.tuntun.rangers/node/src/consensus/groupsig"
	"com.tuntun.rangers/node/src/consensus/model"
	cnet "com.tuntun.rangers/node/src/consensus/net"
	"com.tuntun.rangers/node/src/core"
	"com.tuntun.rangers/node/src/middleware/notify"
	pb "com.tuntun.rangers/node/src/middleware/pb"
	"com.tuntun.rangers/node/src/middleware/types"
	"com.tuntun.rangers/node/src/network"
	"com.tuntun.rangers/node/src/utility"
	"github.com/golang/protobuf/proto"

	"verifharness/env"
	"verifharness/mon"
)

// stub processors: the consensus decoders are tested, not the consensus.
type stubGroupCreate struct{}

func (stubGroupCreate) OnMessageCreateGroupPing(msg *model.CreateGroupPingMessage)           {}
func (stubGroupCreate) OnMessageCreateGroupPong(msg *model.CreateGroupPongMessage)           {}
func (stubGroupCreate) OnMessageParentGroupConsensus(msg *model.ParentGroupConsensusMessage) {}
func (stubGroupCreate) OnMessageParentGroupConsensusSign(msg *model.ParentGroupConsensusSignMessage) {
}
func (stubGroupCreate) OnMessageGroupInit(msg *model.GroupInitMessage)                   {}
func (stubGroupCreate) OnMessageSharePiece(msg *model.SharePieceMessage)                 {}
func (stubGroupCreate) OnMessageSignPK(msg *model.SignPubKeyMessage)                     {}
func (stubGroupCreate) OnMessageGroupInited(msg *model.GroupInitedMessage)               {}
func (stubGroupCreate) OnMessageSharePieceReq(msg *model.ReqSharePieceMessage)           {}
func (stubGroupCreate) OnMessageSharePieceResponse(msg *model.ResponseSharePieceMessage) {}
func (stubGroupCreate) OnMessageSignPKReq(msg *model.SignPubkeyReqMessage)               {}

type stubMining struct{}

func (stubMining) Ready() bool                                       { return true }
func (stubMining) OnMessageCast(msg *model.ConsensusCastMessage)     {}
func (stubMining) OnMessageVerify(msg *model.ConsensusVerifyMessage) {}

var bootOnce sync.Once

func bootNode() {
	bootOnce.Do(func() {
		env.BootCore(env.Forks{}, nil)
		common.SetBlockHeight(1)
		cnet.MessageHandler.Init(stubGroupCreate{}, stubMining{}) // initialises the package logger the decoders log through
	})
}

var errRejected = errors.New("protobuf decoding fails")

type handled struct{}

// lastDecodable: did the independent protobuf decode of the last handler input succeed
// (booted parsers run on one goroutine).
var lastDecodable bool

// signCheckLogLine: the panic is raised by the statement that logs a failed signature check
// with e.Error() although e (the decode error) is nil — DESIGN §8.6, reached only with bytes
// the decoder accepted. Decided on the source line named by the first repository frame.
func signCheckLogLine(cr callRes) bool {
	if !lastDecodable {
		return false
	}
	lines := strings.Split(cr.stack, "\n")
	seenPanic := false
	for i, l := range lines {
		if strings.HasPrefix(l, "panic(") {
			seenPanic = true
			continue
		}
		if seenPanic && strings.HasPrefix(l, "com.tuntun.rangers/node/") && i+1 < len(lines) {
			loc := strings.TrimSpace(lines[i+1]) // /path/file.go:123 +0x..
			if k := strings.IndexByte(loc, ' '); k > 0 {
				loc = loc[:k]
			}
			k := strings.LastIndexByte(loc, ':')
			if k < 0 {
				return false
			}
			n, err := strconv.Atoi(loc[k+1:])
			src, err2 := ioutil.ReadFile(loc[:k])
			if err != nil || err2 != nil {
				return false
			}
			sl := strings.Split(string(src), "\n")
			if n < 1 || n > len(sl) {
				return false
			}
			return strings.Contains(sl[n-1], "Sign verify error") && strings.Contains(sl[n-1], "e.Error()")
		}
	}
	return false
}

func handlerEntry(topic string, code uint32, pbNew func() proto.Message, deliver func(b []byte)) *parserDef {
	return &parserDef{name: "handler:" + topic, booted: true, typ: "handler", code: code,
		fn: func(b []byte) (interface{}, error) {
			lastDecodable = proto.Unmarshal(b, pbNew()) == nil
			deliver(b)
			if !lastDecodable {
				return nil, errRejected
			}
			return handled{}, nil
		},
		exempt: signCheckLogLine,
	}
}

func syncEntry(topic string, code uint32, pbNew func() proto.Message, mk func(b []byte) notify.Message) *parserDef {
	return handlerEntry(topic, code, pbNew, func(b []byte) { core.SyncProcessor.HandleNetMessage(topic, mk(b)) })
}

// consensus message codes (network/interface.go) that WorkerConn hands to ConsensusHandler.Handle
var consensusCodes = []struct {
	name string
	code uint32
}{
	{"GroupInitMsg", network.GroupInitMsg}, {"KeyPieceMsg", network.KeyPieceMsg}, {"SignPubkeyMsg", network.SignPubkeyMsg},
	{"GroupInitDoneMsg", network.GroupInitDoneMsg}, {"CurrentGroupCastMsg", network.CurrentGroupCastMsg}, {"CastVerifyMsg", network.CastVerifyMsg},
	{"VerifiedCastMsg", network.VerifiedCastMsg}, {"CreateGroupaRaw", network.CreateGroupaRaw}, {"CreateGroupSign", network.CreateGroupSign},
	{"AskSignPkMsg", network.AskSignPkMsg}, {"AnswerSignPkMsg", network.AnswerSignPkMsg}, {"GroupPing", network.GroupPing},
	{"GroupPong", network.GroupPong}, {"ReqSharePiece", network.ReqSharePiece}, {"ResponseSharePiece", network.ResponseSharePiece},
}

var bootedOnce sync.Once
var bootedList []*parserDef

func bootedParsers() []*parserDef {
	bootedOnce.Do(func() {
		bootedList = []*parserDef{
			{name: "UnMarshalConsensusCastMessage", booted: true, typ: "consensus",
				fn: func(b []byte) (interface{}, error) {
					v, e := cnet.UnMarshalConsensusCastMessage(b)
					if v == nil {
						return nil, e
					}
					return v, e
				}},
			{name: "UnMarshalConsensusVerifyMessage", booted: true, typ: "consensus",
				fn: func(b []byte) (interface{}, error) {
					v, e := cnet.UnMarshalConsensusVerifyMessage(b)
					if v == nil {
						return nil, e
					}
					return v, e
				}},
			syncEntry(notify.TopBlockInfo, network.TopBlockInfoMsg, func() proto.Message { return new(pb.ChainInfo) },
				func(b []byte) notify.Message { return &notify.ChainInfoMessage{ChainInfo: b, Peer: "peer"} }),
			syncEntry(notify.BlockChainPieceReq, network.BlockChainPieceReqMsg, func() proto.Message { return new(pb.BlockChainPieceReq) },
				func(b []byte) notify.Message {
					return &notify.BlockChainPieceReqMessage{BlockChainPieceReq: b, Peer: "peer"}
				}),
			syncEntry(notify.BlockChainPiece, network.BlockChainPieceMsg, func() proto.Message { return new(pb.BlockChainPiece) },
				func(b []byte) notify.Message {
					return &notify.BlockChainPieceMessage{BlockChainPieceByte: b, Peer: "peer"}
				}),
			syncEntry(notify.BlockReq, network.ReqBlockMsg, func() proto.Message { return new(pb.BlockReq) },
				func(b []byte) notify.Message { return &notify.BlockReqMessage{ReqInfoByte: b, Peer: "peer"} }),
			syncEntry(notify.BlockResponse, network.BlockResponseMsg, func() proto.Message { return new(pb.BlockMsgResponse) },
				func(b []byte) notify.Message { return &notify.BlockResponseMessage{BlockResponseByte: b, Peer: "peer"} }),
			syncEntry(notify.GroupReq, network.ReqGroupMsg, func() proto.Message { return new(pb.GroupReq) },
				func(b []byte) notify.Message { return &notify.GroupReqMessage{ReqInfoByte: b, Peer: "peer"} }),
			syncEntry(notify.GroupResponse, network.GroupResponseMsg, func() proto.Message { return new(pb.GroupMsgResponse) },
				func(b []byte) notify.Message { return &notify.GroupResponseMessage{GroupResponseByte: b, Peer: "peer"} }),
			handlerEntry(notify.TransactionReq, network.ReqTransactionMsg, func() proto.Message { return new(pb.TransactionRequestMessage) },
				func(b []byte) {
					core.ChainHandler{}.HandleNetMessage(notify.TransactionReq, &notify.TransactionReqMessage{TransactionReqByte: b, Peer: "peer"})
				}),
			// a block relayed by a peer: every body, also complete blocks (AddBlockOnChain judges them)
			handlerEntry(notify.NewBlock, network.NewBlockMsg, func() proto.Message { return new(pb.Block) },
				func(b []byte) {
					core.ChainHandler{}.HandleNetMessage(notify.NewBlock, &notify.NewBlockMessage{BlockByte: b, Peer: "peer"})
				}),
			// transactions answered by a peer: decoded and admitted inside WorkerConn.handleMessage itself (hook H10)
			handlerEntry("transaction_got", 0, func() proto.Message { return new(pb.TransactionSlice) },
				func(b []byte) {
					network.VerifWorkerHandleMessage(network.TransactionGotMsg, b, "peer", common.DefaultLogger)
				}),
		}
		// ConsensusHandler.Handle for every consensus message code: it recovers what its decoders throw; nothing may escape
		for _, cc := range consensusCodes {
			cc := cc
			bootedList = append(bootedList, &parserDef{name: "consensus.Handle[" + cc.name + "]", booted: true, typ: "handler", code: cc.code,
				fn: func(b []byte) (interface{}, error) {
					if err := cnet.MessageHandler.Handle("peer", network.Message{Code: cc.code, Body: b}); err != nil {
						return nil, err
					}
					return handled{}, nil
				}})
		}
	})
	return bootedList
}

func bootedByName(name string) *parserDef {
	for _, p := range bootedParsers() {
		if p.name == name {
			return p
		}
	}
	panic("no booted parser " + name)
}

// ---------------------------------------------------------------------------
// messages of the consensus / sync layer

// consensus SignData: DataSign is a serialised groupsig.Signature, SignMember a groupsig.ID
func consSignMsg() message {
	sk := groupsig.NewSeckeyFromRand(base.RandFromBytes([]byte("c09")))
	sig := groupsig.Sign(*sk, []byte("c09 message"))
	id := groupsig.NewIDFromPubkey(*groupsig.GeneratePubkey(*sk))
	return message{
		req(fB("DataHash", 1, seqBytes(32, 0x51))),
		req(fB("DataSign", 2, sig.Serialize())),
		req(fB("SignMember", 3, id.Serialize())),
		fV("Version", 4, 1),
	}
}

// core SignData: DataSign is a 65 byte secp256k1 signature, SignMember the hex id string
func coreSignMsg() message {
	return message{
		req(fB("DataHash", 1, seqBytes(32, 0x51))),
		req(fB("DataSign", 2, seqBytes(65, 0x01))),
		req(fB("SignMember", 3, []byte("0x1111111111111111111111111111111111111111"))),
		fV("Version", 4, 0),
	}
}

var signPayloads = [][]byte{{}, seqBytes(1, 9), seqBytes(31, 9), seqBytes(32, 9), seqBytes(33, 9), seqBytes(64, 9), seqBytes(65, 9), seqBytes(66, 9), seqBytes(130, 9)}

// signVariants: hostile encodings of a SignData message.
func signVariants(s message) []hostile {
	var out []hostile
	for mask := uint64(0); mask <= s.full(); mask++ {
		out = append(out, hostile{s.enc(mask), "SignData missing=" + s.missing(mask)})
	}
	out = append(out, wrongWire(s, "SignData ")...)
	out = append(out, payloads(s, "SignData ", map[string][][]byte{"DataSign": signPayloads, "SignMember": signPayloads})...)
	return out
}

// hostileHeaders: header encodings that matter to the callers of PbToBlockHeader.
func hostileHeaders() []hostile {
	var out []hostile
	m := headerMsg(0)
	for _, mask := range singlesDoubles(len(m), 0, nil) {
		out = append(out, hostile{m.enc(mask), "BlockHeader missing=" + m.missing(mask)})
	}
	for i, tb := range timeBlobs() {
		out = append(out, hostile{m.with("PreTime", item{num: 4, wt: wtBytes, p: tb}).all(), fmt.Sprintf("BlockHeader PreTime=blob#%d", i)})
		out = append(out, hostile{m.with("CurTime", item{num: 7, wt: wtBytes, p: tb}).all(), fmt.Sprintf("BlockHeader CurTime=blob#%d", i)})
	}
	return out
}

func hostileGroups() []hostile {
	var out []hostile
	gh := groupHeaderMsg(0)
	for hm := uint64(0); hm <= gh.full(); hm++ {
		g := groupMsg(gh.enc(hm), 0)
		for _, gm := range []uint64{g.full(), g.full() &^ 32, 1, 0} {
			out = append(out, hostile{g.enc(gm), "Group missing=" + g.missing(gm) + " header-missing=" + gh.missing(hm)})
		}
	}
	g := groupMsg(gh.all(), 0)
	for gm := uint64(0); gm <= g.full(); gm++ {
		out = append(out, hostile{g.enc(gm), "Group missing=" + g.missing(gm)})
	}
	return out
}

// family runs the standard families for one top-level message m through p.
// nested maps a field name to hostile encodings of the nested message in that field.
func (e *engine) family(p *parserDef, m message, label string, nested map[string][]hostile, nMut, nRand int) {
	if len(m) <= 12 {
		e.subsets(p, m, label, allMasks(len(m)), nil)
	} else {
		e.subsets(p, m, label, singlesDoubles(len(m), 500, e.r.Rand("family", label)), nil)
	}
	hs := append(wrongWire(m, label+" "), payloads(m, label+" ", nil)...)
	for name, list := range nested {
		i := m.index(name)
		num := m[i].items[0].num
		for _, h := range list {
			hs = append(hs, hostile{m.with(name, item{num: num, wt: wtBytes, p: h.b}).all(), label + "{" + name + ": " + h.note + "}"})
		}
	}
	e.runList(p, hs, nil)
	valid := m.all()
	e.runList(p, mutations(valid, 0, nil, label+" "), nil)
	e.runGen(p, "mut", nMut, func(rng *rand.Rand, k int) hostile { return mutations1(valid, rng, label+" ", k) })
	e.runGen(p, "random", nRand, func(rng *rand.Rand, k int) hostile { return randomBytes(1, rng, 8)[0] })
}

func (e *engine) hostileBooted() {
	r := e.r
	nMut, nRand := r.Pick(1500, 200000), r.Pick(1500, 200000)
	cs, ks := consSignMsg(), coreSignMsg()
	csV, ksV := signVariants(cs), signVariants(ks)
	hdrs, grps := hostileHeaders(), hostileGroups()
	goodHdr, goodTx := headerMsg(0).all(), txMsg(0).all()
	// well-formed sub-messages written by the node's own marshallers, and their damaged forms
	hdrs = append(hdrs, nodeHeaders...)
	grps = append(grps, nodeGroups...)
	for _, h := range nodeHeaders {
		hdrs = append(hdrs, hostile{h.b[:len(h.b)/2], h.note + " truncated"})
	}
	for _, g := range nodeGroups {
		grps = append(grps, hostile{g.b[:len(g.b)/2], g.note + " truncated"})
	}

	// consensus (exported decoders)
	cast := message{req(fB("Bh", 1, goodHdr)), fB("GroupID", 2, seqBytes(32, 1)), req(fB("Sign", 3, cs.all())), fRep("ProveHash", 4, seqBytes(32, 2), seqBytes(32, 3))}
	e.family(bootedByName("UnMarshalConsensusCastMessage"), cast, "ConsensusCastMessage", map[string][]hostile{"Bh": hdrs, "Sign": csV}, nMut, nRand)
	sk := groupsig.NewSeckeyFromRand(base.RandFromBytes([]byte("c09-r")))
	rs := groupsig.Sign(*sk, []byte("random"))
	verify := message{req(fB("BlockHash", 1, seqBytes(32, 1))), req(fB("RandomSign", 2, rs.Serialize())), req(fB("Sign", 3, cs.all()))}
	e.family(bootedByName("UnMarshalConsensusVerifyMessage"), verify, "ConsensusVerifyMessage",
		map[string][]hostile{"Sign": csV, "RandomSign": {{nil, "empty"}, {seqBytes(1, 1), "1 byte"}, {seqBytes(32, 1), "32 bytes"}, {seqBytes(33, 0xff), "33 x ff"}, {seqBytes(64, 1), "64 bytes"}, {seqBytes(65, 1), "65 bytes"}}}, nMut, nRand)

	// core sync messages
	chainInfo := message{req(fB("TopBlockHash", 1, seqBytes(32, 1))), req(fV("TotalQn", 2, 5)), req(fV("TopBlockHeight", 3, 7)), req(fB("PreHash", 4, seqBytes(32, 2))),
		req(fV("TopGroupHeight", 5, 1)), req(fB("SignInfo", 6, ks.all()))}
	e.family(bootedByName("handler:"+notify.TopBlockInfo), chainInfo, "ChainInfo", map[string][]hostile{"SignInfo": ksV}, nMut, nRand)
	heightReq := message{req(fV("Height", 1, 3)), req(fB("SignInfo", 2, ks.all()))}
	for _, t := range []string{notify.BlockChainPieceReq, notify.BlockReq, notify.GroupReq} {
		e.family(bootedByName("handler:"+t), heightReq, "HeightReq", map[string][]hostile{"SignInfo": ksV}, nMut, nRand)
	}
	piece := message{fRep("BlockHeaders", 1, goodHdr, headerMsg(2).all()), req(fB("TopHeader", 2, goodHdr)), req(fB("SignInfo", 3, ks.all()))}
	e.family(bootedByName("handler:"+notify.BlockChainPiece), piece, "BlockChainPiece",
		map[string][]hostile{"BlockHeaders": hdrs, "TopHeader": hdrs, "SignInfo": ksV}, nMut, nRand)
	var blks []hostile
	for _, h := range hdrs {
		blks = append(blks, hostile{blockMsg(h.b, goodTx).all(), "Block{Header: " + h.note + "}"})
	}
	tm := txMsg(0)
	for i := range tm {
		blks = append(blks, hostile{blockMsg(goodHdr, tm.enc(tm.full()&^(1<<uint(i)))).all(), "Block{tx missing=" + tm[i].name + "}"})
	}
	blks = append(blks, hostile{blockMsg(goodHdr).enc(2), "Block missing=Header"}, hostile{nil, "Block empty"},
		hostile{[]byte{0x0a}, "Block truncated after the Header tag"}, hostile{[]byte{0x0a, 0xff}, "Block truncated length varint"},
		hostile{[]byte{0x0a, 0x00}, "Block with an empty Header"}, hostile{[]byte{0x12, 0x00}, "Block with one empty transaction and no Header"})
	blks = append(blks, nodeBlocks...)
	resp := message{req(fV("IsLast", 1, 1)), fB("Block", 2, blockMsg(goodHdr, goodTx).all()), req(fB("SignInfo", 3, ks.all()))}
	e.family(bootedByName("handler:"+notify.BlockResponse), resp, "BlockMsgResponse", map[string][]hostile{"Block": blks, "SignInfo": ksV}, nMut, nRand)
	gresp := message{req(fV("IsLast", 1, 0)), fB("Group", 2, groupMsg(groupHeaderMsg(0).all(), 0).all()), req(fB("SignInfo", 3, ks.all()))}
	e.family(bootedByName("handler:"+notify.GroupResponse), gresp, "GroupMsgResponse", map[string][]hostile{"Group": grps, "SignInfo": ksV}, nMut, nRand)

	// core chain handler
	treq := message{fRep("TransactionHashes", 1, txHashMsg(1).all(), txHashMsg(3).all()), req(fB("CurrentBlockHash", 2, seqBytes(32, 1))), req(fV("BlockHeight", 3, 9)), req(fB("BlockPv", 4, seqBytes(80, 1)))}
	e.family(bootedByName("handler:"+notify.TransactionReq), treq, "TransactionRequestMessage",
		map[string][]hostile{"TransactionHashes": {{txHashMsg(1).enc(0), "empty"}, {txHashMsg(1).enc(1), "no subHash"}, {seqBytes(40, 0x0a), "garbage"}}}, nMut, nRand)
	nb := bootedByName("handler:" + notify.NewBlock)
	e.family(nb, blockMsg(goodHdr, goodTx, goodTx), "Block", map[string][]hostile{"Header": hdrs}, nMut, nRand)
	e.runList(nb, blks, nil)
	for _, b := range nodeBlocks { // blocks the node produced itself, then every truncation / bit flip of them
		e.runList(nb, mutations(b.b, 0, nil, b.note+" "), nil)
		vb := b
		e.runGen(nb, "mut-node", nMut/4, func(rng *rand.Rand, k int) hostile { return mutations1(vb.b, rng, vb.note+" ", k) })
	}
	e.mu.Lock()
	e.cnt["node_messages_to_handlers"] += int64(len(nodeBlocks) + len(nodeHeaders) + len(nodeGroups))
	e.mu.Unlock()

	// transactions answered by a peer (TransactionGotMsg): decoded and admitted inside WorkerConn.handleMessage
	tg := bootedByName("handler:transaction_got")
	e.family(tg, txSliceMsg(goodTx, txMsg(1).all()), "TransactionSlice", nil, nMut, nRand)
	for v := 0; v < 2; v++ {
		m := txMsg(v)
		e.subsets(tg, m, fmt.Sprintf("TransactionSlice[1]/v%d", v), singlesDoubles(len(m), 300, r.Rand("tg-subsets", v)), func(b []byte) []byte { return txSliceMsg(goodTx, b).all() })
		var hs []hostile
		for _, h := range append(wrongWire(m, "Transaction "), payloads(m, "Transaction ", map[string][][]byte{"Sign": signPayloads})...) {
			hs = append(hs, hostile{txSliceMsg(h.b).all(), "TransactionSlice{" + h.note + "}"})
		}
		e.runList(tg, hs, nil)
	}

	// ConsensusHandler.Handle, every consensus message code: structured bodies of all kinds, mutations, random bytes
	var pool []hostile
	pool = append(pool, hostile{cast.all(), "ConsensusCastMessage"}, hostile{verify.all(), "ConsensusVerifyMessage"}, hostile{nil, "empty body"})
	pool = append(pool, csV...)
	pool = append(pool, wrongWire(cast, "ConsensusCastMessage ")...)
	pool = append(pool, wrongWire(verify, "ConsensusVerifyMessage ")...)
	for _, h := range csV {
		pool = append(pool, hostile{cast.with("Sign", item{num: 3, wt: wtBytes, p: h.b}).all(), "ConsensusCastMessage{Sign: " + h.note + "}"})
		pool = append(pool, hostile{verify.with("Sign", item{num: 3, wt: wtBytes, p: h.b}).all(), "ConsensusVerifyMessage{Sign: " + h.note + "}"})
		// shapes of the group-creation messages: GHash, bytes, nested, MemCnt, SignData at the field numbers they use
		pool = append(pool, hostile{message{fB("GHash", 1, seqBytes(32, 1)), fB("f2", 2, h.b), fB("f3", 3, seqBytes(32, 3)), fV("MemCnt", 4, 3), fB("f5", 5, h.b)}.all(), "group-create shape{" + h.note + "}"})
		pool = append(pool, hostile{message{fB("f1", 1, seqBytes(32, 1)), fB("f2", 2, []byte("ping-1")), fV("f3", 3, 7), fB("f4", 4, h.b)}.all(), "ping shape{" + h.note + "}"})
	}
	for _, h := range hdrs[:40] {
		pool = append(pool, hostile{cast.with("Bh", item{num: 1, wt: wtBytes, p: h.b}).all(), "ConsensusCastMessage{Bh: " + h.note + "}"})
	}
	pool = append(pool, mutations(cast.all(), 0, nil, "ConsensusCastMessage ")[:400]...)
	for _, cc := range consensusCodes {
		p := bootedByName("consensus.Handle[" + cc.name + "]")
		e.runList(p, pool, nil)
		e.runGen(p, "random", nRand/3, func(rng *rand.Rand, k int) hostile { return randomBytes(1, rng, 8)[0] })
	}
}

// ---------------------------------------------------------------------------
// values produced by the node itself

// wire forms of values the node produced (its own marshallers), offered to the handlers
var nodeBlocks, nodeHeaders, nodeGroups []hostile

func keepNode(list *[]hostile, b []byte, err error, note string) {
	if err == nil && len(b) > 0 {
		*list = append(*list, hostile{append([]byte{}, b...), "node-produced " + note})
	}
}

func nodeValues(e *engine) {
	r := e.r
	l := lcnt{}
	c := Case{Kind: "node"}
	hd, bk, gp := codecOf("header"), codecOf("block"), codecOf("group")
	chain := core.GetBlockChain()
	for _, local := range []string{"UTC", "Asia/Shanghai"} {
		setLocal(local)
		c.Local = local
		if g := chain.QueryBlock(0); g != nil {
			c.Note = "genesis block"
			roundTrip(r, bk, g, true, c, l)
			roundTrip(r, hd, g.Header, true, c, l)
			l["node_values_roundtrip"] += 2
			if local == "UTC" {
				b, err := types.MarshalBlock(g)
				keepNode(&nodeBlocks, b, err, "genesis block")
				b, err = types.MarshalBlockHeader(g.Header)
				keepNode(&nodeHeaders, b, err, "genesis header")
			}
		}
		if top := chain.TopBlock(); top != nil {
			c.Note = "top header"
			roundTrip(r, hd, top, true, c, l)
			l["node_values_roundtrip"]++
		}
		if h0 := chain.QueryBlockHeaderByHeight(uint64(0), true); h0 != nil {
			c.Note = "header 0 read back from the store"
			roundTrip(r, hd, h0, true, c, l)
			l["node_values_roundtrip"]++
		}
		// blocks cast by the node on top of the current head
		top := chain.TopBlock()
		for i := 0; i < 4 && top != nil; i++ {
			pv := make([]byte, 80)
			r.Rand("node-prove", i).Read(pv)
			for k := 0; k < i; k++ {
				pv[k] = 0
			}
			ts := utility.GetTime()
			if i%2 == 1 {
				ts = ts.In(time.FixedZone("CST", 8*3600))
			}
			bh, ok := chain.CastBlock(ts, top.Height+1+uint64(i), new(big.Int).SetBytes(pv), common.Hash{}, uint64(i+1), seqBytes(32, 1), seqBytes(32, 2))
			if !ok {
				r.Note("CastBlock refused at height %d", top.Height+1+uint64(i))
				continue
			}
			c.Note = fmt.Sprintf("header of block cast at height %d", bh.Height)
			h := bh
			roundTrip(r, hd, &h, true, c, l)
			l["node_values_roundtrip"]++
			l["node_cast_headers"]++
			var blk *types.Block
			for try := 0; try < 200 && blk == nil; try++ {
				blk = chain.GenerateBlock(bh)
				if blk == nil {
					time.Sleep(5 * time.Millisecond)
				}
			}
			if blk != nil {
				c.Note = fmt.Sprintf("block generated from the header cast at height %d", bh.Height)
				roundTrip(r, bk, blk, true, c, l)
				l["node_values_roundtrip"]++
				l["node_cast_blocks"]++
				b, err := types.MarshalBlock(blk)
				keepNode(&nodeBlocks, b, err, c.Note)
				b, err = types.MarshalBlockHeader(blk.Header)
				keepNode(&nodeHeaders, b, err, c.Note)
			}
		}
		gc := core.GetGroupChain()
		seen := 0
		for h := uint64(0); h <= gc.Count() && h < 16; h++ {
			if g := gc.GetGroupByHeight(h); g != nil {
				c.Note = fmt.Sprintf("group at height %d of the group chain", h)
				roundTrip(r, gp, g, true, c, l)
				seen++
			}
		}
		if g := gc.LastGroup(); g != nil {
			c.Note = "last group of the group chain"
			roundTrip(r, gp, g, true, c, l)
			seen++
			if local == "UTC" {
				b, err := types.MarshalGroup(g)
				keepNode(&nodeGroups, b, err, "last group of the group chain")
			}
		}
		for i, gi := range (&env.Helper{}).GenerateGenesisInfo() {
			g := gi.Group
			c.Note = fmt.Sprintf("genesis info group %d", i)
			roundTrip(r, gp, &g, true, c, l)
			seen++
		}
		l["node_values_roundtrip"] += int64(seen)
		l["node_groups"] += int64(seen)
	}
	setLocal("UTC")
	e.merge(l)
}

// wireMain: every input of the handler families is first given to the handler synchronously
// (panics there are judged by the booted child, not here); inputs the handler survives are then
// handed to WorkerConn.handleMessage (hook H10), which publishes on the bus: the handlers run
// in goroutines without recover, so a panic there ends this process and the parent reports it.
func wireMain(r *mon.Run) {
	bootNode()
	e := newEngine(r)
	e.workers = 1
	e.quiet = true
	sent := int64(0)
	e.tap = func(p *parserDef, h hostile, panicked bool) {
		if panicked || p.code == 0 {
			return
		}
		r.CaseBegin(append([]byte(p.name+"\x00"), h.b...))
		network.VerifWorkerHandleMessage(p.code, h.b, "peer", common.DefaultLogger)
		sent++
		if sent%32 == 0 {
			time.Sleep(200 * time.Microsecond) // let the handler goroutines run close to their input
		}
	}
	nodeValues(e)
	e.hostileBooted()
	// message codes no handler family exists for, and unknown codes: dispatch only
	for _, code := range []uint32{0, 7, 11, 17, 18, 21, 41, 1 << 31} {
		for _, b := range [][]byte{nil, {0x0a}, seqBytes(40, 1)} {
			network.VerifWorkerHandleMessage(code, b, "peer", common.DefaultLogger)
			sent++
		}
	}
	time.Sleep(500 * time.Millisecond)
	e.cnt = map[string]int64{} // the booted child counts these executions
	r.Count("wire_messages_sent", sent)
	r.Count("wire_child_finished", 1)
	r.Finish(mon.Coverage{})
}

func childMain(r *mon.Run, args []string) {
	if len(args) > 0 && args[0] == "wire" {
		wireMain(r)
		return
	}
	t0 := time.Now()
	bootNode()
	e := newEngine(r)
	e.workers = 1
	nodeValues(e)
	e.flush()
	r.FlushChild()
	t1 := time.Now()
	e.hostileBooted()
	t2 := time.Now()
	e.reportPanics()
	e.flush()
	r.Note("timing (informative, child): boot+node values %.1fs, hostile %.1fs, shrinking %.1fs", t1.Sub(t0).Seconds(), t2.Sub(t1).Seconds(), time.Since(t2).Seconds())
	r.Count("booted_child_finished", 1)
	r.Finish(mon.Coverage{})
}
