package main

// Seeded generators of in-memory values. Class "producible" builds values the
// way the node's own constructors do (genGenesisBlock, blockChain.CastBlock,
// TxJson.ToTransaction, group_create) or a parser would return them; class
// "arbitrary" additionally uses shapes no constructor produces (nil hash lists,
// negative prove values, exotic zones, invalid UTF-8).

import (
	"math"
	"math/big"
	"math/rand"
	"strconv"
	"time"

	"com.tuntun.rangers/node/src/common"
	"com.tuntun.rangers/node/src/middleware/types"
)

var zonesProducible = []*time.Location{
	time.UTC,
	nil, // time.Local (filled at use)
	time.FixedZone("CST", 8*3600),
	time.FixedZone("", 5*3600+45*60),
	time.FixedZone("NST", -(3*3600 + 30*60)),
	time.FixedZone("", 14*3600),
	time.FixedZone("", -12*3600),
	time.FixedZone("LMT", 53*60+28),
	time.FixedZone("", 60),
	time.FixedZone("", -120),
}

var zonesArbitrary = []*time.Location{
	time.FixedZone("LMT", -(4*3600 + 56*60 + 2)), // historical LMT west of Greenwich: negative offset with seconds
	time.FixedZone("", -60),                      // Time.MarshalBinary refuses: offset minute -1 is the UTC marker
	time.FixedZone("", -61),                      // refused as well
	time.FixedZone("", -119),                     // refused
	time.FixedZone("", -59),
	time.FixedZone("", 1),
	time.FixedZone("", 23*3600+59*60+59),
	time.FixedZone("", -(23*3600 + 59*60 + 59)),
	time.FixedZone("", 25*3600),
	time.FixedZone("", 32767*60),
	time.FixedZone("", -32768*60),
	time.FixedZone("", 40000*60), // out of the int16 minute range
}

var monoBase = time.Now()

func genTime(rng *rand.Rand, arbitrary bool) time.Time {
	var t time.Time
	switch rng.Intn(10) {
	case 0:
		t = time.Time{}
	case 1:
		t = time.Unix(0, 0)
	case 2:
		t = time.Date(2021, 12, 7, 0, 0, 0, 0, time.UTC)
	case 3:
		t = time.Date(9999, 12, 31, 23, 59, 59, 999999999, time.UTC)
	case 4:
		t = time.Unix(int64(rng.Intn(2000000000)), 0)
	case 5:
		t = time.Unix(int64(rng.Intn(2000000000)), 999999999)
	default:
		t = time.Unix(1600000000+int64(rng.Intn(200000000)), int64(rng.Intn(1000000000)))
	}
	if arbitrary && rng.Intn(8) == 0 {
		switch rng.Intn(4) {
		case 0:
			t = time.Date(-5, 1, 1, 0, 0, 0, 0, time.UTC)
		case 1:
			t = time.Date(10000+rng.Intn(100000), 1, 1, 0, 0, 0, 1, time.UTC)
		case 2:
			t = time.Unix(math.MaxInt64/4, 0)
		case 3:
			t = time.Unix(-(1 << 40), 5)
		}
	}
	var loc *time.Location
	if arbitrary && rng.Intn(3) == 0 {
		loc = zonesArbitrary[rng.Intn(len(zonesArbitrary))]
	} else {
		loc = zonesProducible[rng.Intn(len(zonesProducible))]
	}
	if loc == nil {
		loc = time.Local
	}
	if !(t.IsZero() && rng.Intn(2) == 0) { // keep some plain zero values (loc == nil)
		t = t.In(loc)
	}
	if rng.Intn(4) == 0 {
		// same wall instant carrying a monotonic clock reading in time.Local, like
		// utility.GetTime() (= time.Now().Add(offset)); only the instant enters the case
		if m := monoBase.Add(t.Sub(monoBase)); m.Equal(t) {
			t = m
		}
	}
	return t
}

func genHash(rng *rand.Rand) common.Hash {
	var h common.Hash
	switch rng.Intn(8) {
	case 0:
	case 1:
		h[31] = 1
	case 2:
		for i := range h {
			h[i] = 0xff
		}
	default:
		rng.Read(h[:])
		if rng.Intn(4) == 0 {
			h[0], h[1] = 0, 0
		}
	}
	return h
}

func genU64(rng *rand.Rand) uint64 {
	switch rng.Intn(8) {
	case 0:
		return 0
	case 1:
		return 1
	case 2:
		return math.MaxUint64
	case 3:
		return math.MaxUint64 - uint64(rng.Intn(3))
	case 4:
		return 1 << 63
	case 5:
		return uint64(rng.Intn(1000))
	default:
		return rng.Uint64() >> uint(rng.Intn(64))
	}
}

// genBytes: nil / empty-but-non-nil / short / 32 / long.
func genBytes(rng *rand.Rand, allowEmpty bool) []byte {
	switch rng.Intn(7) {
	case 0:
		return nil
	case 1:
		if allowEmpty {
			return []byte{}
		}
		return nil
	case 2:
		return []byte{byte(rng.Intn(256))}
	case 3:
		b := make([]byte, 1+rng.Intn(200))
		rng.Read(b)
		return b
	default:
		b := make([]byte, 32+rng.Intn(2))
		rng.Read(b)
		if rng.Intn(4) == 0 {
			b[0] = 0
		}
		return b
	}
}

func genProve(rng *rand.Rand, arbitrary bool) *big.Int {
	switch rng.Intn(8) {
	case 0:
		return nil // what PbToBlockHeader returns for an absent field
	case 1:
		return big.NewInt(0) // genesis
	case 2:
		return big.NewInt(int64(rng.Intn(1000)))
	case 3:
		if arbitrary {
			return big.NewInt(-int64(1 + rng.Intn(1000)))
		}
		return new(big.Int).Lsh(big.NewInt(1), 639)
	default: // 80-byte VRF proof whose big-endian form starts with 0..3 zero bytes
		b := make([]byte, 80)
		rng.Read(b)
		for i := 0; i < rng.Intn(4); i++ {
			b[i] = 0
		}
		v := new(big.Int).SetBytes(b)
		if arbitrary && rng.Intn(6) == 0 {
			v.Neg(v)
		}
		return v
	}
}

var keyPool = []string{"", "a", "game-1", "0x00000000000000000000000000000000000000aa", "ключ", "k\"q", "k\u0000z", "<&>"}

func genReqIds(rng *rand.Rand) map[string]uint64 {
	switch rng.Intn(5) {
	case 0:
		return nil
	case 1:
		return map[string]uint64{}
	default:
		m := map[string]uint64{}
		for i := 0; i < 1+rng.Intn(3); i++ {
			m[keyPool[rng.Intn(len(keyPool))]] = genU64(rng)
		}
		return m
	}
}

func genHeader(rng *rand.Rand, arbitrary bool) *types.BlockHeader {
	h := &types.BlockHeader{
		Height:      genU64(rng),
		PreHash:     genHash(rng),
		PreTime:     genTime(rng, arbitrary),
		ProveValue:  genProve(rng, arbitrary),
		TotalQN:     genU64(rng),
		CurTime:     genTime(rng, arbitrary),
		Castor:      genBytes(rng, true),
		GroupId:     genBytes(rng, true),
		Signature:   genBytes(rng, true),
		Nonce:       genU64(rng),
		RequestIds:  genReqIds(rng),
		TxTree:      genHash(rng),
		ReceiptTree: genHash(rng),
		StateTree:   genHash(rng),
		ExtraData:   genBytes(rng, true),
		Random:      genBytes(rng, true),
	}
	// the node's constructors always allocate both hash lists (genesis_block.go "important!!",
	// CastBlock make(...)); the parser returns non-nil lists too
	n := 0
	switch rng.Intn(6) {
	case 0:
	case 1:
		n = 1
	case 2:
		n = 200
	default:
		n = rng.Intn(12)
	}
	h.Transactions = make([]common.Hashes, n)
	for i := range h.Transactions {
		h.Transactions[i] = common.Hashes{genHash(rng), genHash(rng)}
	}
	h.EvictedTxs = make([]common.Hash, 0)
	for i := 0; i < rng.Intn(4); i++ {
		h.EvictedTxs = append(h.EvictedTxs, genHash(rng))
	}
	if arbitrary {
		if rng.Intn(4) == 0 {
			h.Transactions = nil
		}
		if rng.Intn(4) == 0 {
			h.EvictedTxs = nil
		}
	}
	if rng.Intn(5) == 0 {
		h.Hash = genHash(rng)
	} else {
		h.Hash = h.GenHash()
	}
	return h
}

var strPool = []string{"", "0x00000000000000000000000000000000000000aa", "0x1111111111111111111111111111111111111111",
	`{"gasLimit":"100000","gasPrice":"1","transferValue":"0","abiData":"0x"}`, "1.5", "héllo wörld ✓", "a\u0000b", " ", "9500", "2025",
	"2021-12-07 10:11:12.123", "1638871872123"}

func genStr(rng *rand.Rand, arbitrary bool) string {
	switch rng.Intn(8) {
	case 0:
		return ""
	case 1:
		b := make([]byte, rng.Intn(300))
		for i := range b {
			b[i] = byte(32 + rng.Intn(95))
		}
		return string(b)
	case 2:
		if arbitrary { // arbitrary bytes, not valid UTF-8
			b := make([]byte, 1+rng.Intn(40))
			rng.Read(b)
			return string(b)
		}
		return "0x" + strconv.FormatUint(rng.Uint64(), 16)
	default:
		return strPool[rng.Intn(len(strPool))]
	}
}

func genSign(rng *rand.Rand) *common.Sign {
	if rng.Intn(3) == 0 {
		return nil
	}
	b := make([]byte, 65)
	rng.Read(b)
	switch rng.Intn(5) {
	case 0:
		for i := 0; i < 32; i++ {
			b[i] = 0
		}
	case 1:
		b[0], b[32] = 0, 0
	case 2:
		for i := range b {
			b[i] = 0xff
		}
	}
	b[64] = byte(rng.Intn(4))
	return common.BytesToSign(b)
}

func genSubTx(rng *rand.Rand) []types.UserData {
	switch rng.Intn(5) {
	case 0, 1:
		return nil
	case 2:
		return []types.UserData{}
	}
	n := 1 + rng.Intn(3)
	out := make([]types.UserData, n)
	for i := range out {
		u := types.UserData{Address: genU64(rng)}
		if rng.Intn(2) == 0 {
			u.Balance = strPool[rng.Intn(len(strPool))]
		}
		if rng.Intn(2) == 0 {
			u.Coin = map[string]string{keyPool[rng.Intn(len(keyPool))]: "1"}
		}
		if rng.Intn(3) == 0 {
			u.FT = map[string]string{"ft": "2.5", "": ""}
		}
		switch rng.Intn(3) {
		case 0:
			u.Assets = map[string]string{}
		case 1:
			u.Assets = map[string]string{"nft": "{}"}
		}
		out[i] = u
	}
	return out
}

func genTx(rng *rand.Rand, arbitrary bool) *types.Transaction {
	typs := []int32{0, 1, 2, 3, 4, 5, 6, 7, 99, 100, 188, 200, 600, 612, math.MaxInt32, -1, math.MinInt32}
	t := &types.Transaction{
		Source:          genStr(rng, arbitrary),
		Target:          genStr(rng, arbitrary),
		Type:            typs[rng.Intn(len(typs))],
		Time:            genStr(rng, arbitrary),
		Data:            genStr(rng, arbitrary),
		ExtraData:       genStr(rng, arbitrary),
		ExtraDataType:   []int32{0, 1, 2, -1, math.MaxInt32, math.MinInt32}[rng.Intn(6)],
		SubTransactions: genSubTx(rng),
		SubHash:         genHash(rng),
		Sign:            genSign(rng),
		Nonce:           genU64(rng),
		RequestId:       genU64(rng),
		ChainId:         []string{"", "9500", "2025", "0x251c"}[rng.Intn(4)],
	}
	if rng.Intn(6) == 0 {
		t.SocketRequestId = "ws-" + strconv.Itoa(rng.Intn(1000))
	}
	if rng.Intn(5) == 0 {
		t.Hash = genHash(rng)
	} else {
		t.Hash = t.GenHash()
	}
	return t
}

func genBlock(rng *rand.Rand, arbitrary bool) *types.Block {
	b := &types.Block{Header: genHeader(rng, arbitrary)}
	n := rng.Intn(5)
	if rng.Intn(10) == 0 {
		n = 40
	}
	switch {
	case n == 0 && rng.Intn(2) == 0:
		b.Transactions = nil
	default:
		b.Transactions = make([]*types.Transaction, n)
		for i := range b.Transactions {
			b.Transactions[i] = genTx(rng, arbitrary)
		}
	}
	return b
}

func genGroup(rng *rand.Rand, arbitrary bool) *types.Group {
	gh := &types.GroupHeader{
		Parent:          genBytes(rng, true),
		PreGroup:        genBytes(rng, true),
		CreateBlockHash: genBytes(rng, true),
		BeginTime:       genTime(rng, arbitrary),
		MemberRoot:      genHash(rng),
		CreateHeight:    genU64(rng),
		Extends:         genStr(rng, arbitrary),
	}
	if rng.Intn(5) == 0 {
		gh.Hash = genHash(rng)
	} else {
		gh.Hash = gh.GenHash()
	}
	if arbitrary && rng.Intn(3) == 0 {
		// derived locally by groupChain.AddGroup; not part of the wire format
		gh.ReadyHeight, gh.WorkHeight, gh.DismissHeight = genU64(rng), genU64(rng), genU64(rng)
	}
	g := &types.Group{Header: gh, Id: genBytes(rng, true), PubKey: genBytes(rng, true), Signature: genBytes(rng, true), GroupHeight: genU64(rng)}
	n := rng.Intn(11)
	if n > 0 || rng.Intn(2) == 0 {
		g.Members = make([][]byte, n)
		for i := range g.Members {
			m := make([]byte, 32)
			rng.Read(m)
			g.Members[i] = m
		}
	}
	return g
}

func genMember(rng *rand.Rand) *types.Member {
	// both fields are "required" in x.proto: a nil slice cannot be marshalled
	id, pk := genBytes(rng, true), genBytes(rng, true)
	if id == nil {
		id = []byte{}
	}
	if pk == nil {
		pk = []byte{}
	}
	return &types.Member{Id: id, PubKey: pk}
}
