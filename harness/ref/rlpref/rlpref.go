// Package rlpref is an independent reference for the RLP wire grammar
// (Ethereum yellow paper, appendix B): a strict canonical parser, a canonical
// encoder, and a reflection-driven encoder for Go values following the
// documented type-directed rules. It imports nothing from go-rangers; the C08
// driver uses it as the oracle that judges the real storage/rlp package.
//
// Canonical means: a single byte below 0x80 is its own encoding (never
// prefixed), short form (one header byte) for payloads of 0..55 bytes, long
// form only for payloads >= 56 bytes with a big-endian length without leading
// zero bytes, every list payload is exactly a concatenation of canonical
// items, no bytes after the item.
package rlpref

import (
	"fmt"
	"math/big"
	"reflect"
	"strings"
)

type Kind int

const (
	Byte   Kind = iota // single byte < 0x80, its own encoding
	String             // 0x80.. / 0xb8.. prefixed byte string
	List               // 0xc0.. / 0xf8.. prefixed list
)

func (k Kind) String() string { return [...]string{"Byte", "String", "List"}[k] }

// Error codes (stable; used inside violation signatures).
const (
	EEmpty          = "empty-input"
	ETruncHeader    = "truncated-header"
	ETruncContent   = "truncated-content"
	ESingleByte     = "prefixed-single-byte"
	ELongFormSmall  = "long-form-for-size-below-56"
	ELeadingZeroLen = "leading-zero-in-length"
	ETrailing       = "trailing-data"
)

type Error struct {
	Code string
	Off  int // offset of the offending item in the buffer handed to the top-level call
}

func (e *Error) Error() string { return fmt.Sprintf("rlpref: %s at offset %d", e.Code, e.Off) }

// Item is one parsed RLP item.
type Item struct {
	Kind    Kind
	Content []byte  // Byte: the byte; String: the payload; List: the payload (concatenated children)
	Kids    []*Item // List only (deep parse)
	Off     int     // offset of the first header byte in the top-level buffer
	Hdr     int     // header length (0 for Byte)
}

func (it *Item) Total() int { return it.Hdr + len(it.Content) }

// Header checks the first item header of b canonically (including the
// single-byte rule and "payload fits into b") and returns kind, header length
// and payload length.
func Header(b []byte) (k Kind, hdr int, size uint64, err *Error) {
	if len(b) == 0 {
		return 0, 0, 0, &Error{Code: EEmpty}
	}
	t := b[0]
	switch {
	case t < 0x80:
		return Byte, 0, 1, nil
	case t < 0xb8:
		k, hdr, size = String, 1, uint64(t-0x80)
	case t < 0xc0:
		k, hdr = String, 1+int(t-0xb7)
	case t < 0xf8:
		k, hdr, size = List, 1, uint64(t-0xc0)
	default:
		k, hdr = List, 1+int(t-0xf7)
	}
	if hdr > 1 {
		if len(b) < hdr {
			return 0, 0, 0, &Error{Code: ETruncHeader}
		}
		if b[1] == 0 {
			return 0, 0, 0, &Error{Code: ELeadingZeroLen}
		}
		for _, c := range b[1:hdr] {
			size = size<<8 | uint64(c)
		}
		if size < 56 {
			return 0, 0, 0, &Error{Code: ELongFormSmall}
		}
	}
	if size > uint64(len(b)-hdr) {
		return 0, 0, 0, &Error{Code: ETruncContent}
	}
	if k == String && size == 1 && b[hdr] < 0x80 {
		return 0, 0, 0, &Error{Code: ESingleByte}
	}
	return k, hdr, size, nil
}

// Shallow parses the first item of b without looking inside lists.
func Shallow(b []byte) (it *Item, rest []byte, err *Error) {
	k, hdr, size, err := Header(b)
	if err != nil {
		return nil, b, err
	}
	n := hdr + int(size)
	return &Item{Kind: k, Content: b[hdr:n], Hdr: hdr}, b[n:], nil
}

// Count is the number of shallowly canonical items b is a concatenation of.
func Count(b []byte) (int, *Error) {
	n, off := 0, 0
	for len(b) > 0 {
		it, rest, err := Shallow(b)
		if err != nil {
			err.Off += off
			return 0, err
		}
		off += it.Total()
		b = rest
		n++
	}
	return n, nil
}

// Parse parses the first item of b deeply (every nested item canonical).
func Parse(b []byte) (*Item, []byte, *Error) { return parse(b, 0) }

func parse(b []byte, off int) (*Item, []byte, *Error) {
	it, rest, err := Shallow(b)
	if err != nil {
		err.Off += off
		return nil, b, err
	}
	it.Off = off
	if it.Kind == List {
		p, o := it.Content, off+it.Hdr
		it.Kids = []*Item{}
		for len(p) > 0 {
			kid, r, err := parse(p, o)
			if err != nil {
				return nil, b, err
			}
			it.Kids = append(it.Kids, kid)
			o += kid.Total()
			p = r
		}
	}
	return it, rest, nil
}

// ParseExact demands that b is exactly one deeply canonical item.
func ParseExact(b []byte) (*Item, *Error) {
	it, rest, err := Parse(b)
	if err != nil {
		return nil, err
	}
	if len(rest) > 0 {
		return nil, &Error{Code: ETrailing, Off: it.Total()}
	}
	return it, nil
}

// Walk visits the item and all descendants in encoding order.
func (it *Item) Walk(f func(*Item)) {
	f(it)
	for _, k := range it.Kids {
		k.Walk(f)
	}
}

// ---------------------------------------------------------------------------
// canonical encoder

func putLen(n uint64) []byte {
	var out []byte
	for s := 56; s >= 0; s -= 8 {
		if c := byte(n >> uint(s)); c != 0 || len(out) > 0 {
			out = append(out, c)
		}
	}
	return out
}

// Head returns the canonical header for a payload of n bytes (base 0x80 string / 0xc0 list).
func Head(base byte, n uint64) []byte {
	if n < 56 {
		return []byte{base + byte(n)}
	}
	l := putLen(n)
	return append([]byte{base + 55 + byte(len(l))}, l...)
}

func EncString(s []byte) []byte {
	if len(s) == 1 && s[0] < 0x80 {
		return []byte{s[0]}
	}
	return append(Head(0x80, uint64(len(s))), s...)
}

func EncList(payload []byte) []byte { return append(Head(0xc0, uint64(len(payload))), payload...) }

func EncUint(u uint64) []byte { return EncString(putLen(u)) }

func EncBig(i *big.Int) []byte {
	if i == nil {
		return []byte{0x80}
	}
	return EncString(i.Bytes())
}

// ---------------------------------------------------------------------------
// Mutable tree used by the byte-string generator: canonical by default, with
// per-node deviations.

type Node struct {
	List bool
	Str  []byte
	Kids []*Node
	// deviations
	ForceLong int    // >0: long-form header whose length field has this many bytes (zero padded if larger than needed)
	NoSingle  bool   // encode a single byte < 0x80 with a 0x81 prefix
	SizeDelta int64  // header claims payload length + SizeDelta
	SwapTag   bool   // string header for a list payload and vice versa
	Raw       []byte // when non-nil: emitted verbatim instead of the node
}

func FromItem(it *Item) *Node {
	if it.Kind != List {
		return &Node{Str: append([]byte{}, it.Content...)}
	}
	n := &Node{List: true, Kids: []*Node{}}
	for _, k := range it.Kids {
		n.Kids = append(n.Kids, FromItem(k))
	}
	return n
}

func (n *Node) All() []*Node {
	out := []*Node{n}
	for _, k := range n.Kids {
		out = append(out, k.All()...)
	}
	return out
}

func (n *Node) Encode() []byte {
	if n.Raw != nil {
		return n.Raw
	}
	var payload []byte
	base := byte(0x80)
	if n.List {
		base = 0xc0
		for _, k := range n.Kids {
			payload = append(payload, k.Encode()...)
		}
	} else {
		payload = n.Str
		if len(payload) == 1 && payload[0] < 0x80 && !n.NoSingle && n.ForceLong == 0 && n.SizeDelta == 0 && !n.SwapTag {
			return []byte{payload[0]}
		}
	}
	if n.SwapTag {
		base ^= 0x40
	}
	claimed := uint64(int64(len(payload)) + n.SizeDelta)
	var head []byte
	if n.ForceLong > 0 {
		l := putLen(claimed)
		if len(l) == 0 {
			l = []byte{0}
		}
		for len(l) < n.ForceLong {
			l = append([]byte{0}, l...)
		}
		if len(l) > 8 {
			l = l[len(l)-8:]
		}
		head = append([]byte{base + 55 + byte(len(l))}, l...)
	} else {
		head = Head(base, claimed)
	}
	return append(head, payload...)
}

// ---------------------------------------------------------------------------
// Reflection-driven reference encoder for Go values (documented encoding rules):
// uints -> minimal big-endian string, bool -> 0x01 / 0x80, *big.Int / big.Int
// -> minimal big-endian string (nil = 0), string / []byte / [N]byte -> string,
// other slices / arrays -> list, struct -> list of exported fields not tagged
// rlp:"-" (a final rlp:"tail" slice is spliced in), nil pointer -> encoding of
// the zero value (empty string for *[N]byte, empty list for *struct / *array),
// nil interface -> empty list, a type named RawValue -> verbatim.

type ValueOpts struct {
	// Custom, when set, may take over the encoding of a value (types with their own EncodeRLP).
	Custom func(v reflect.Value) ([]byte, bool)
}

var bigIntType = reflect.TypeOf(big.Int{})

func IsRawType(t reflect.Type) bool {
	return t.Kind() == reflect.Slice && t.Name() == "RawValue" && strings.HasSuffix(t.PkgPath(), "/rlp")
}

func EncodeValue(v reflect.Value, o *ValueOpts) ([]byte, error) {
	if o != nil && o.Custom != nil {
		if b, ok := o.Custom(v); ok {
			return b, nil
		}
	}
	t := v.Type()
	switch {
	case IsRawType(t):
		return append([]byte{}, v.Bytes()...), nil
	case t == bigIntType:
		i := v.Interface().(big.Int)
		if i.Sign() < 0 {
			return nil, fmt.Errorf("negative big.Int")
		}
		return EncBig(&i), nil
	case t == reflect.PtrTo(bigIntType):
		i := v.Interface().(*big.Int)
		if i != nil && i.Sign() < 0 {
			return nil, fmt.Errorf("negative big.Int")
		}
		return EncBig(i), nil
	}
	switch t.Kind() {
	case reflect.Uint, reflect.Uint8, reflect.Uint16, reflect.Uint32, reflect.Uint64, reflect.Uintptr:
		return EncUint(v.Uint()), nil
	case reflect.Bool:
		if v.Bool() {
			return []byte{0x01}, nil
		}
		return []byte{0x80}, nil
	case reflect.String:
		return EncString([]byte(v.String())), nil
	case reflect.Slice, reflect.Array:
		if t.Elem().Kind() == reflect.Uint8 {
			b := make([]byte, v.Len())
			for i := range b {
				b[i] = byte(v.Index(i).Uint())
			}
			return EncString(b), nil
		}
		p, err := encodeElems(v, o)
		if err != nil {
			return nil, err
		}
		return EncList(p), nil
	case reflect.Struct:
		var payload []byte
		for i := 0; i < t.NumField(); i++ {
			f := t.Field(i)
			if f.PkgPath != "" {
				continue
			}
			tag := f.Tag.Get("rlp")
			if hasTag(tag, "-") {
				continue
			}
			var e []byte
			var err error
			if hasTag(tag, "tail") {
				e, err = encodeElems(v.Field(i), o)
			} else {
				e, err = EncodeValue(v.Field(i), o)
			}
			if err != nil {
				return nil, err
			}
			payload = append(payload, e...)
		}
		return EncList(payload), nil
	case reflect.Ptr:
		if !v.IsNil() {
			return EncodeValue(v.Elem(), o)
		}
		et := t.Elem()
		switch {
		case et.Kind() == reflect.Array && et.Elem().Kind() == reflect.Uint8:
			return []byte{0x80}, nil
		case et.Kind() == reflect.Struct && et != bigIntType, et.Kind() == reflect.Array:
			return []byte{0xc0}, nil
		}
		return EncodeValue(reflect.Zero(et), o)
	case reflect.Interface:
		if v.IsNil() {
			return []byte{0xc0}, nil
		}
		return EncodeValue(v.Elem(), o)
	}
	return nil, fmt.Errorf("rlpref: unsupported type %v", t)
}

func encodeElems(v reflect.Value, o *ValueOpts) ([]byte, error) {
	var payload []byte
	for i := 0; i < v.Len(); i++ {
		e, err := EncodeValue(v.Index(i), o)
		if err != nil {
			return nil, err
		}
		payload = append(payload, e...)
	}
	return payload, nil
}

func hasTag(tag, want string) bool {
	for _, t := range strings.Split(tag, ",") {
		if strings.TrimSpace(t) == want {
			return true
		}
	}
	return false
}

// HasTag reports whether the struct field's rlp tag contains the given word.
func HasTag(f reflect.StructField, want string) bool { return hasTag(f.Tag.Get("rlp"), want) }
