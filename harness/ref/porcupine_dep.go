// Package ref holds independent reference code. This file pins the porcupine dependency.
package ref

import _ "github.com/anishathalye/porcupine"
