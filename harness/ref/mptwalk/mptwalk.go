// Package mptwalk is an independent (no go-rangers imports) structural walker
// for hexary Merkle-Patricia tries stored as hash -> RLP(node) in a key-value
// store. It only answers: "is every node reachable from this root present in
// the store, well formed, and stored under the keccak256 of its encoding?"
// and hands every leaf (key nibbles, value) to a callback. Used by the C03
// driver as a cross-check of the walks done through the real trie code.
package mptwalk

import (
	"bytes"
	"encoding/hex"
	"fmt"

	"golang.org/x/crypto/sha3"
)

// Getter returns the value stored under key, and whether it is present.
type Getter func(key []byte) ([]byte, bool)

// EmptyRoot is keccak256(rlp("")), the root of the empty trie.
var EmptyRoot = mustHex("56e81f171bcc55a6ff8345e692c0f86e5b48e01b996cadc001622fb5e363b421")

func mustHex(s string) []byte {
	b, err := hex.DecodeString(s)
	if err != nil {
		panic(err)
	}
	return b
}

// MissingError: a node referenced by hash is not in the store.
type MissingError struct {
	Hash []byte
	Path []byte // nibbles
}

func (e *MissingError) Error() string {
	return fmt.Sprintf("missing node %x (path %x)", e.Hash, e.Path)
}

// MalformedError: a stored blob is not a valid trie node or is stored under the wrong key.
type MalformedError struct {
	Hash []byte
	Path []byte
	Why  string
}

func (e *MalformedError) Error() string {
	return fmt.Sprintf("malformed node %x (path %x): %s", e.Hash, e.Path, e.Why)
}

// Item is one decoded RLP item.
type Item struct {
	IsList  bool
	Payload []byte // string content, or the concatenated encoded items of a list
	Raw     []byte // the full encoding of this item
}

// Split decodes the first RLP item of b and returns it with the rest.
func Split(b []byte) (Item, []byte, error) {
	if len(b) == 0 {
		return Item{}, nil, fmt.Errorf("rlp: empty input")
	}
	t := b[0]
	var off, n uint64
	isList := false
	switch {
	case t < 0x80:
		return Item{Payload: b[:1], Raw: b[:1]}, b[1:], nil
	case t < 0xb8:
		off, n = 1, uint64(t-0x80)
	case t < 0xc0:
		ll := uint64(t - 0xb7)
		if uint64(len(b)) < 1+ll {
			return Item{}, nil, fmt.Errorf("rlp: short length")
		}
		for _, c := range b[1 : 1+ll] {
			n = n<<8 | uint64(c)
		}
		off = 1 + ll
	case t < 0xf8:
		off, n, isList = 1, uint64(t-0xc0), true
	default:
		ll := uint64(t - 0xf7)
		if uint64(len(b)) < 1+ll {
			return Item{}, nil, fmt.Errorf("rlp: short length")
		}
		for _, c := range b[1 : 1+ll] {
			n = n<<8 | uint64(c)
		}
		off, isList = 1+ll, true
	}
	if n > uint64(len(b)) || off+n > uint64(len(b)) {
		return Item{}, nil, fmt.Errorf("rlp: value larger than input")
	}
	return Item{IsList: isList, Payload: b[off : off+n], Raw: b[:off+n]}, b[off+n:], nil
}

// List decodes b as exactly one RLP list and returns its items.
func List(b []byte) ([]Item, error) {
	it, rest, err := Split(b)
	if err != nil {
		return nil, err
	}
	if len(rest) != 0 {
		return nil, fmt.Errorf("rlp: trailing bytes")
	}
	if !it.IsList {
		return nil, fmt.Errorf("rlp: not a list")
	}
	var out []Item
	p := it.Payload
	for len(p) > 0 {
		var e Item
		e, p, err = Split(p)
		if err != nil {
			return nil, err
		}
		out = append(out, e)
	}
	return out, nil
}

func keccak(b []byte) []byte {
	h := sha3.NewLegacyKeccak256()
	h.Write(b)
	return h.Sum(nil)
}

// Stats counts what a walk saw.
type Stats struct {
	HashedNodes   int
	EmbeddedNodes int
	Leaves        int
}

// Walker walks tries over one store.
type Walker struct {
	Get Getter
	// SkipSubtree, when set, is asked for every hash-referenced node before it is
	// loaded; returning true skips the subtree (it was verified before).
	SkipSubtree func(hash []byte) bool
	// MarkDone, when set, is called for every hash-referenced node whose whole
	// subtree (including what onLeaf checked) was visited without error.
	MarkDone func(hash []byte)
	Stats    Stats
}

// Walk visits every node reachable from root. onLeaf receives the key nibbles
// (without terminator) and the value; it may be nil.
func (w *Walker) Walk(root []byte, onLeaf func(nibbles []byte, value []byte) error) error {
	if len(root) != 32 {
		return fmt.Errorf("root must be 32 bytes")
	}
	if bytes.Equal(root, EmptyRoot) || bytes.Equal(root, make([]byte, 32)) {
		return nil
	}
	return w.byHash(root, nil, onLeaf)
}

func (w *Walker) byHash(hash []byte, path []byte, onLeaf func([]byte, []byte) error) error {
	if w.SkipSubtree != nil && w.SkipSubtree(hash) {
		return nil
	}
	blob, ok := w.Get(hash)
	if !ok || len(blob) == 0 {
		return &MissingError{Hash: append([]byte{}, hash...), Path: append([]byte{}, path...)}
	}
	if !bytes.Equal(keccak(blob), hash) {
		return &MalformedError{Hash: append([]byte{}, hash...), Path: append([]byte{}, path...), Why: "blob does not hash to its key"}
	}
	w.Stats.HashedNodes++
	items, err := List(blob)
	if err != nil {
		return &MalformedError{Hash: append([]byte{}, hash...), Path: append([]byte{}, path...), Why: err.Error()}
	}
	if err := w.node(items, hash, path, onLeaf); err != nil {
		return err
	}
	if w.MarkDone != nil {
		w.MarkDone(hash)
	}
	return nil
}

func (w *Walker) child(it Item, owner []byte, path []byte, onLeaf func([]byte, []byte) error) error {
	if it.IsList {
		items, err := List(it.Raw)
		if err != nil {
			return &MalformedError{Hash: owner, Path: append([]byte{}, path...), Why: "embedded: " + err.Error()}
		}
		if len(it.Raw) >= 32 {
			return &MalformedError{Hash: owner, Path: append([]byte{}, path...), Why: "embedded node of 32 bytes or more"}
		}
		w.Stats.EmbeddedNodes++
		return w.node(items, owner, path, onLeaf)
	}
	switch len(it.Payload) {
	case 0:
		return nil
	case 32:
		return w.byHash(it.Payload, path, onLeaf)
	}
	return &MalformedError{Hash: owner, Path: append([]byte{}, path...), Why: fmt.Sprintf("child reference of %d bytes", len(it.Payload))}
}

func (w *Walker) node(items []Item, owner []byte, path []byte, onLeaf func([]byte, []byte) error) error {
	switch len(items) {
	case 17:
		for i := 0; i < 16; i++ {
			if err := w.child(items[i], owner, append(append([]byte{}, path...), byte(i)), onLeaf); err != nil {
				return err
			}
		}
		v := items[16]
		if v.IsList {
			return &MalformedError{Hash: owner, Path: append([]byte{}, path...), Why: "branch value is a list"}
		}
		if len(v.Payload) > 0 {
			w.Stats.Leaves++
			if onLeaf != nil {
				return onLeaf(append([]byte{}, path...), v.Payload)
			}
		}
		return nil
	case 2:
		k := items[0]
		if k.IsList || len(k.Payload) == 0 {
			return &MalformedError{Hash: owner, Path: append([]byte{}, path...), Why: "short node key"}
		}
		flag := k.Payload[0] >> 4
		if flag > 3 {
			return &MalformedError{Hash: owner, Path: append([]byte{}, path...), Why: "compact key flag"}
		}
		np := append([]byte{}, path...)
		if flag&1 == 1 {
			np = append(np, k.Payload[0]&0x0f)
		}
		for _, c := range k.Payload[1:] {
			np = append(np, c>>4, c&0x0f)
		}
		if flag&2 == 2 { // leaf
			if items[1].IsList {
				return &MalformedError{Hash: owner, Path: np, Why: "leaf value is a list"}
			}
			w.Stats.Leaves++
			if onLeaf != nil {
				return onLeaf(np, items[1].Payload)
			}
			return nil
		}
		if !items[1].IsList && len(items[1].Payload) != 32 {
			return &MalformedError{Hash: owner, Path: np, Why: "extension child is not a node reference"}
		}
		return w.child(items[1], owner, np, onLeaf)
	}
	return &MalformedError{Hash: owner, Path: append([]byte{}, path...), Why: fmt.Sprintf("node with %d items", len(items))}
}

// NibblesToBytes packs an even number of nibbles.
func NibblesToBytes(n []byte) ([]byte, bool) {
	if len(n)%2 != 0 {
		return nil, false
	}
	out := make([]byte, len(n)/2)
	for i := range out {
		out[i] = n[2*i]<<4 | n[2*i+1]
	}
	return out, true
}
