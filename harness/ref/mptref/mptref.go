// Package mptref is an independent reference for the Ethereum Merkle-Patricia
// trie commitment of a finite map key -> non-empty value (arbitrary byte keys,
// including the empty key and keys that are prefixes of one another).
//
// It imports nothing from go-rangers: own hex-prefix encoding, own minimal RLP
// writer, golang.org/x/crypto/sha3 legacy Keccak-256. The root is computed from
// scratch from the sorted content (no incremental insert/delete), so it cannot
// share a structural bug with an insert/delete based implementation.
//
// SelfCheck validates the package against published Ethereum vectors (RLP,
// hex-prefix, Keccak, trietest.json / trieanyorder.json / go-ethereum trie tests).
package mptref

import (
	"bytes"
	"encoding/hex"
	"fmt"
	"sort"

	"golang.org/x/crypto/sha3"
)

// Keccak256 is the legacy (pre-NIST padding) Keccak-256 used by Ethereum.
func Keccak256(b []byte) [32]byte {
	var out [32]byte
	h := sha3.NewLegacyKeccak256()
	h.Write(b)
	h.Sum(out[:0])
	return out
}

// ---------------------------------------------------------------------------
// minimal RLP writer

func rlpLen(n int) []byte {
	var b []byte
	for n > 0 {
		b = append([]byte{byte(n & 0xff)}, b...)
		n >>= 8
	}
	return b
}

// RLPString encodes a byte string.
func RLPString(s []byte) []byte {
	if len(s) == 1 && s[0] < 0x80 {
		return []byte{s[0]}
	}
	if len(s) < 56 {
		return append([]byte{0x80 + byte(len(s))}, s...)
	}
	l := rlpLen(len(s))
	out := append([]byte{0xb7 + byte(len(l))}, l...)
	return append(out, s...)
}

// RLPList wraps an already encoded payload (concatenated items) into a list.
func RLPList(payload []byte) []byte {
	if len(payload) < 56 {
		return append([]byte{0xc0 + byte(len(payload))}, payload...)
	}
	l := rlpLen(len(payload))
	out := append([]byte{0xf7 + byte(len(l))}, l...)
	return append(out, payload...)
}

// ---------------------------------------------------------------------------
// hex-prefix encoding (Yellow Paper appendix C)

// HexPrefix encodes a nibble path with the terminator flag t.
func HexPrefix(nibbles []byte, t bool) []byte {
	flag := byte(0)
	if t {
		flag = 2
	}
	var out []byte
	if len(nibbles)%2 == 1 {
		out = append(out, (flag+1)<<4|nibbles[0])
		nibbles = nibbles[1:]
	} else {
		out = append(out, flag<<4)
	}
	for i := 0; i < len(nibbles); i += 2 {
		out = append(out, nibbles[i]<<4|nibbles[i+1])
	}
	return out
}

// Nibbles splits key bytes into 4-bit digits, high first.
func Nibbles(key []byte) []byte {
	out := make([]byte, 0, 2*len(key))
	for _, b := range key {
		out = append(out, b>>4, b&0x0f)
	}
	return out
}

// ---------------------------------------------------------------------------

// Stats describes the canonical trie of a content (structure of the
// specification trie, not of any implementation).
type Stats struct {
	Keys         int
	Branches     int
	Extensions   int
	Leaves       int
	BranchValues int // branch nodes carrying a value (a key that is a prefix of another)
	Embedded     int // non-root nodes with RLP < 32 bytes (stored inside the parent)
	Hashed       int // non-root nodes with RLP >= 32 bytes (referenced by hash)
	Len31        int // non-root nodes with RLP of exactly 31 bytes (largest embedded)
	Len32        int // non-root nodes with RLP of exactly 32 bytes (smallest hashed)
	MaxDepth     int // in nibbles
}

type entry struct {
	nib []byte
	val []byte
}

// EmptyRoot is Keccak256(RLP("")).
var EmptyRoot = Keccak256([]byte{0x80})

// Root returns the canonical MPT root of the content. Entries with an empty
// value are not part of the content (an empty write is a deletion).
func Root(content map[string][]byte) [32]byte {
	r, _ := RootStats(content)
	return r
}

// RootStats returns the root and the structure statistics.
func RootStats(content map[string][]byte) ([32]byte, Stats) {
	var st Stats
	es := make([]entry, 0, len(content))
	for k, v := range content {
		if len(v) == 0 {
			continue
		}
		es = append(es, entry{Nibbles([]byte(k)), v})
	}
	st.Keys = len(es)
	if len(es) == 0 {
		return EmptyRoot, st
	}
	sort.Slice(es, func(i, j int) bool { return bytes.Compare(es[i].nib, es[j].nib) < 0 })
	enc := build(es, 0, &st)
	return Keccak256(enc), st
}

// build returns the RLP of the node holding the (sorted, non-empty) entries,
// all of which share the first depth nibbles.
func build(es []entry, depth int, st *Stats) []byte {
	if depth > st.MaxDepth {
		st.MaxDepth = depth
	}
	if len(es) == 1 {
		st.Leaves++
		return RLPList(append(RLPString(HexPrefix(es[0].nib[depth:], true)), RLPString(es[0].val)...))
	}
	// longest common prefix beyond depth: sorted, so first vs last suffices
	a, b := es[0].nib, es[len(es)-1].nib
	l := depth
	for l < len(a) && l < len(b) && a[l] == b[l] {
		l++
	}
	if l > depth {
		st.Extensions++
		child := build(es, l, st)
		return RLPList(append(RLPString(HexPrefix(a[depth:l], false)), ref(child, st)...))
	}
	st.Branches++
	var payload []byte
	var value []byte
	i := 0
	if len(es[0].nib) == depth { // the key ending here sorts first (it is a prefix of the rest)
		value = es[0].val
		st.BranchValues++
		i = 1
	}
	for n := byte(0); n < 16; n++ {
		j := i
		for j < len(es) && es[j].nib[depth] == n {
			j++
		}
		if j == i {
			payload = append(payload, 0x80)
		} else {
			payload = append(payload, ref(build(es[i:j], depth+1, st), st)...)
		}
		i = j
	}
	if i != len(es) {
		panic("mptref: entries not sorted")
	}
	payload = append(payload, RLPString(value)...)
	return RLPList(payload)
}

func ref(enc []byte, st *Stats) []byte {
	switch len(enc) {
	case 31:
		st.Len31++
	case 32:
		st.Len32++
	}
	if len(enc) < 32 {
		st.Embedded++
		return enc
	}
	st.Hashed++
	h := Keccak256(enc)
	return RLPString(h[:])
}

// ---------------------------------------------------------------------------
// self check

type vec struct {
	name string
	kv   [][2]string // "0x.." = hex, otherwise literal
	root string
}

func lit(s string) []byte {
	if len(s) >= 2 && s[:2] == "0x" {
		b, err := hex.DecodeString(s[2:])
		if err != nil {
			panic(err)
		}
		return b
	}
	return []byte(s)
}

var trieVectors = []vec{
	{"empty", nil, "56e81f171bcc55a6ff8345e692c0f86e5b48e01b996cadc001622fb5e363b421"},
	{"singleItem", [][2]string{{"A", "aaaaaaaaaaaaaaaaaaaaaaaaaaaaaaaaaaaaaaaaaaaaaaaaaa"}},
		"d23786fb4a010da3ce639d66d5e904a11dbc02746d1ce25029e53290cabf28ab"},
	{"dogs", [][2]string{{"doe", "reindeer"}, {"dog", "puppy"}, {"dogglesworth", "cat"}},
		"8aad789dff2f538bca5d8ea56e8abe10f4c7ba3a5dea95fea4cd6e7c3a1168d3"},
	{"puppy", [][2]string{{"do", "verb"}, {"horse", "stallion"}, {"doge", "coin"}, {"dog", "puppy"}},
		"5991bb8c6514148a29db676a14ac506cd2cd5775ace63c30a4fe457715e9ac84"},
	{"emptyValues", [][2]string{{"do", "verb"}, {"ether", "wookiedoo"}, {"horse", "stallion"}, {"shaman", "horse"},
		{"doge", "coin"}, {"ether", ""}, {"dog", "puppy"}, {"shaman", ""}},
		"5991bb8c6514148a29db676a14ac506cd2cd5775ace63c30a4fe457715e9ac84"},
	{"foo", [][2]string{{"foo", "bar"}, {"food", "bass"}},
		"17beaa1648bafa633cda809c90c04af50fc8aed3cb40d16efbddee6fdf63c4c3"},
	{"smallValues", [][2]string{{"be", "e"}, {"dog", "puppy"}, {"bed", "d"}},
		"3f67c7a47520f79faa29255d2d3c084a7a6df0453116ed7232ff10277a8be68b"},
	{"testy", [][2]string{{"test", "test"}, {"te", "testy"}},
		"8452568af70d8d140f58d941338542f645fcca50094b20f3c3d8c3df49337928"},
	{"hex", [][2]string{{"0x0045", "0x0123456789"}, {"0x4500", "0x9876543210"}},
		"285505fcabe84badc8aa310e2aae17eddc7d120aabec8a476902c8184b3a3503"},
	{"insert-middle-leaf", [][2]string{{"key1aa", "0123456789012345678901234567890123456789xxx"},
		{"key1", "0123456789012345678901234567890123456789Very_Long"}, {"key2bb", "aval3"}, {"key2", "short"},
		{"key3cc", "aval3"}, {"key3", "1234567890123456789012345678901"}},
		"cb65032e2f76c48b82b5c24b3db8f670ce73982869d38cd39a624f23d62a9e89"},
	{"branch-value-update", [][2]string{{"abc", "123"}, {"abcd", "abcd"}, {"abc", "abc"}},
		"7a320748f780ad9ad5b0837302075ce0eeba6c26e3d8562c67ccc0f1b273298a"},
}

// SelfCheck validates the reference against published vectors. It returns the
// number of vectors checked.
func SelfCheck() (int, error) {
	n := 0
	// Keccak
	k := Keccak256(nil)
	if hex.EncodeToString(k[:]) != "c5d2460186f7233c927e7db2dcc703c0e500b653ca82273b7bfad8045d85a470" {
		return n, fmt.Errorf("keccak256(\"\") = %x", k)
	}
	n++
	k = Keccak256([]byte("abc"))
	if hex.EncodeToString(k[:]) != "4e03657aea45a94fc7d47ba826c8d667c0d1e6e33a64a036ec44f58fa12d6c45" {
		return n, fmt.Errorf("keccak256(abc) = %x", k)
	}
	n++
	// RLP (ethereum/tests rlptest.json)
	lorem := "Lorem ipsum dolor sit amet, consectetur adipisicing elit"
	rlpv := []struct {
		got  []byte
		want string
	}{
		{RLPString(nil), "80"},
		{RLPString([]byte{0x00}), "00"},
		{RLPString([]byte{0x0f}), "0f"},
		{RLPString([]byte{0x7f}), "7f"},
		{RLPString([]byte{0x80}), "8180"},
		{RLPString([]byte{0x04, 0x00}), "820400"},
		{RLPString([]byte("dog")), "83646f67"},
		{RLPString([]byte(lorem[:55])), "b7" + hex.EncodeToString([]byte(lorem[:55]))},
		{RLPString([]byte(lorem)), "b838" + hex.EncodeToString([]byte(lorem))},
		{RLPString(bytes.Repeat([]byte{'a'}, 1024)), "b90400" + hex.EncodeToString(bytes.Repeat([]byte{'a'}, 1024))},
		{RLPList(nil), "c0"},
		{RLPList(append(RLPString([]byte("cat")), RLPString([]byte("dog"))...)), "c88363617483646f67"},
		{RLPList(bytes.Repeat(RLPString([]byte("asdf")), 11)), "f784617364668461736466846173646684617364668461736466846173646684617364668461736466846173646684617364668461736466"},
		{RLPList(bytes.Repeat(RLPString([]byte("asdf")), 12)), "f83c" + hex.EncodeToString(bytes.Repeat(RLPString([]byte("asdf")), 12))},
	}
	for i, v := range rlpv {
		if hex.EncodeToString(v.got) != v.want {
			return n, fmt.Errorf("rlp vector %d: got %x want %s", i, v.got, v.want)
		}
		n++
	}
	// hex-prefix (ethereum/tests hexencodetest.json, go-ethereum encoding_test.go)
	hpv := []struct {
		nib  []byte
		term bool
		want string
	}{
		{[]byte{}, false, "00"},
		{[]byte{}, true, "20"},
		{[]byte{1, 2, 3, 4, 5}, false, "112345"},
		{[]byte{0, 1, 2, 3, 4, 5}, false, "00012345"},
		{[]byte{15, 1, 12, 11, 8}, true, "3f1cb8"},
		{[]byte{0, 15, 1, 12, 11, 8}, true, "200f1cb8"},
	}
	for i, v := range hpv {
		if got := hex.EncodeToString(HexPrefix(v.nib, v.term)); got != v.want {
			return n, fmt.Errorf("hex-prefix vector %d: got %s want %s", i, got, v.want)
		}
		n++
	}
	// trie vectors; every one in insertion order, reversed and rotated (trieanyorder)
	for _, v := range trieVectors {
		for variant := 0; variant < 3; variant++ {
			kv := append([][2]string{}, v.kv...)
			m := map[string][]byte{}
			apply := func(p [2]string) {
				if p[1] == "" {
					delete(m, string(lit(p[0])))
				} else {
					m[string(lit(p[0]))] = lit(p[1])
				}
			}
			for _, p := range kv {
				apply(p)
			}
			if variant > 0 {
				// content is what counts: rebuild the map from the final content in another order
				final := m
				m = map[string][]byte{}
				keys := make([]string, 0, len(final))
				for k := range final {
					keys = append(keys, k)
				}
				sort.Strings(keys)
				if variant == 2 {
					for i, j := 0, len(keys)-1; i < j; i, j = i+1, j-1 {
						keys[i], keys[j] = keys[j], keys[i]
					}
				}
				for _, k := range keys {
					m[k] = final[k]
				}
			}
			r := Root(m)
			if hex.EncodeToString(r[:]) != v.root {
				return n, fmt.Errorf("trie vector %q: got %x want %s", v.name, r, v.root)
			}
		}
		n++
	}
	return n, nil
}
