// Package bnref is an independent math/big reference for the curve that
// go-rangers' groupsig/bn256 implements: E: y^2 = x^3 + 3 over F_p (G1) and the
// sextic twist E': y^2 = x^3 + 3/(i+3) over F_p^2 = F_p[i]/(i^2+1) (G2).
// It imports nothing from go-rangers. It is used by the C14 driver to classify
// byte strings (on curve / off curve / non-reduced coordinates), to derive
// algebraically related points, and to construct twist points outside the
// order-r subgroup.
package bnref

import "math/big"

func dec(s string) *big.Int {
	n, ok := new(big.Int).SetString(s, 10)
	if !ok {
		panic("bnref: bad constant")
	}
	return n
}

var (
	// P = 36u^4+36u^3+24u^2+6u+1, u = 1868033^3 (own copy of the constant).
	P = dec("65000549695646603732796438742359905742825358107623003571877145026864184071783")
	// Order = 36u^4+36u^3+18u^2+6u+1.
	Order = dec("65000549695646603732796438742359905742570406053903786389881062969044166799969")
	U     = dec("6518589491078791937")

	zero  = big.NewInt(0)
	one   = big.NewInt(1)
	two   = big.NewInt(2)
	three = big.NewInt(3)
	two56 = new(big.Int).Lsh(one, 256)
)

// SelfCheck verifies the constants against the BN polynomials.
func SelfCheck() bool {
	u2 := new(big.Int).Mul(U, U)
	u3 := new(big.Int).Mul(u2, U)
	u4 := new(big.Int).Mul(u3, U)
	t := func(c4, c3, c2, c1, c0 int64) *big.Int {
		r := new(big.Int).Mul(u4, big.NewInt(c4))
		r.Add(r, new(big.Int).Mul(u3, big.NewInt(c3)))
		r.Add(r, new(big.Int).Mul(u2, big.NewInt(c2)))
		r.Add(r, new(big.Int).Mul(U, big.NewInt(c1)))
		return r.Add(r, big.NewInt(c0))
	}
	return t(36, 36, 24, 6, 1).Cmp(P) == 0 && t(36, 36, 18, 6, 1).Cmp(Order) == 0 &&
		P.ProbablyPrime(20) && Order.ProbablyPrime(20) && new(big.Int).Mod(P, big.NewInt(4)).Int64() == 3
}

func mod(a *big.Int) *big.Int { return a.Mod(a, P) }

// ---------------------------------------------------------------------------
// F_p

// SqrtFp returns a square root of a mod P (P = 3 mod 4) if one exists.
func SqrtFp(a *big.Int) (*big.Int, bool) {
	a = new(big.Int).Mod(a, P)
	e := new(big.Int).Add(P, one)
	e.Rsh(e, 2)
	r := new(big.Int).Exp(a, e, P)
	if new(big.Int).Exp(r, two, P).Cmp(a) == 0 {
		return r, true
	}
	return nil, false
}

// ---------------------------------------------------------------------------
// G1: affine points, nil = point at infinity

type G1 struct{ X, Y *big.Int }

func G1Gen() *G1 { return &G1{big.NewInt(1), new(big.Int).Sub(P, two)} }

// G1OnCurve judges reduced or unreduced coordinates (reduces first).
func G1OnCurve(x, y *big.Int) bool {
	x = new(big.Int).Mod(x, P)
	y = new(big.Int).Mod(y, P)
	l := new(big.Int).Mul(y, y)
	mod(l)
	r := new(big.Int).Mul(x, x)
	r.Mul(r, x)
	r.Add(r, three)
	mod(r)
	return l.Cmp(r) == 0
}

// G1FromX returns (x, y) on the curve for the given x when x^3+3 is a square.
func G1FromX(x *big.Int) (*G1, bool) {
	x = new(big.Int).Mod(x, P)
	r := new(big.Int).Mul(x, x)
	r.Mul(r, x)
	r.Add(r, three)
	y, ok := SqrtFp(r)
	if !ok {
		return nil, false
	}
	return &G1{x, y}, true
}

func G1Neg(a *G1) *G1 {
	if a == nil {
		return nil
	}
	return &G1{new(big.Int).Set(a.X), mod(new(big.Int).Sub(P, a.Y))}
}

func G1Add(a, b *G1) *G1 {
	if a == nil {
		return b
	}
	if b == nil {
		return a
	}
	var lam *big.Int
	if a.X.Cmp(b.X) == 0 {
		if new(big.Int).Mod(new(big.Int).Add(a.Y, b.Y), P).Sign() == 0 {
			return nil
		}
		// 3x^2 / 2y
		num := new(big.Int).Mul(a.X, a.X)
		num.Mul(num, three)
		den := new(big.Int).Lsh(a.Y, 1)
		den.ModInverse(mod(den), P)
		lam = mod(num.Mul(num, den))
	} else {
		num := new(big.Int).Sub(b.Y, a.Y)
		den := new(big.Int).Sub(b.X, a.X)
		den.ModInverse(mod(den), P)
		lam = mod(num.Mul(mod(num), den))
	}
	x3 := new(big.Int).Mul(lam, lam)
	x3.Sub(x3, a.X)
	x3.Sub(x3, b.X)
	mod(x3)
	y3 := new(big.Int).Sub(a.X, x3)
	y3.Mul(y3, lam)
	y3.Sub(y3, a.Y)
	mod(y3)
	return &G1{x3, y3}
}

func G1Mul(a *G1, k *big.Int) *G1 {
	var acc *G1
	for i := k.BitLen() - 1; i >= 0; i-- {
		acc = G1Add(acc, acc)
		if k.Bit(i) == 1 {
			acc = G1Add(acc, a)
		}
	}
	return acc
}

func pad32(v *big.Int) []byte {
	b := v.Bytes()
	if len(b) > 32 {
		panic("bnref: value does not fit 32 bytes")
	}
	out := make([]byte, 32)
	copy(out[32-len(b):], b)
	return out
}

// Pad32 is the 32-byte big-endian encoding of v (v < 2^256).
func Pad32(v *big.Int) []byte { return pad32(v) }

// Fits32 reports v < 2^256.
func Fits32(v *big.Int) bool { return v.Sign() >= 0 && v.Cmp(two56) < 0 }

// G1Bytes is the canonical 64-byte encoding (all-zero for infinity).
func G1Bytes(a *G1) []byte {
	if a == nil {
		return make([]byte, 64)
	}
	return append(pad32(a.X), pad32(a.Y)...)
}

// G1Parse splits 64 bytes into raw (unreduced) coordinates.
func G1Parse(b []byte) (x, y *big.Int, ok bool) {
	if len(b) < 64 {
		return nil, nil, false
	}
	return new(big.Int).SetBytes(b[:32]), new(big.Int).SetBytes(b[32:64]), true
}

// ---------------------------------------------------------------------------
// F_p^2 : A*i + B  (A imaginary part, B real part), i^2 = -1

type Fp2 struct{ A, B *big.Int }

func NewFp2(a, b *big.Int) Fp2 {
	return Fp2{new(big.Int).Mod(a, P), new(big.Int).Mod(b, P)}
}
func (x Fp2) IsZero() bool     { return x.A.Sign() == 0 && x.B.Sign() == 0 }
func (x Fp2) Equal(y Fp2) bool { return x.A.Cmp(y.A) == 0 && x.B.Cmp(y.B) == 0 }
func (x Fp2) Add(y Fp2) Fp2 {
	return NewFp2(new(big.Int).Add(x.A, y.A), new(big.Int).Add(x.B, y.B))
}
func (x Fp2) Sub(y Fp2) Fp2 {
	return NewFp2(new(big.Int).Sub(x.A, y.A), new(big.Int).Sub(x.B, y.B))
}
func (x Fp2) Mul(y Fp2) Fp2 {
	// (xA i + xB)(yA i + yB) = (xA yB + xB yA) i + (xB yB - xA yA)
	a := new(big.Int).Mul(x.A, y.B)
	a.Add(a, new(big.Int).Mul(x.B, y.A))
	b := new(big.Int).Mul(x.B, y.B)
	b.Sub(b, new(big.Int).Mul(x.A, y.A))
	return NewFp2(a, b)
}
func (x Fp2) Inv() Fp2 {
	// 1/(A i + B) = (B - A i)/(A^2+B^2)
	n := new(big.Int).Mul(x.A, x.A)
	n.Add(n, new(big.Int).Mul(x.B, x.B))
	n.ModInverse(mod(n), P)
	return NewFp2(new(big.Int).Mul(new(big.Int).Neg(x.A), n), new(big.Int).Mul(x.B, n))
}

// Sqrt returns a square root in F_p^2 if one exists (verified by squaring).
func (x Fp2) Sqrt() (Fp2, bool) {
	if x.IsZero() {
		return x, true
	}
	check := func(r Fp2) bool { return r.Mul(r).Equal(x) }
	if x.A.Sign() == 0 {
		if r, ok := SqrtFp(x.B); ok {
			return NewFp2(zero, r), true
		}
		if r, ok := SqrtFp(new(big.Int).Neg(x.B)); ok {
			c := NewFp2(r, zero)
			return c, check(c)
		}
		return Fp2{}, false
	}
	n := new(big.Int).Mul(x.A, x.A)
	n.Add(n, new(big.Int).Mul(x.B, x.B))
	s, ok := SqrtFp(n)
	if !ok {
		return Fp2{}, false
	}
	inv2 := new(big.Int).ModInverse(two, P)
	for _, sg := range []*big.Int{s, new(big.Int).Neg(s)} {
		t := new(big.Int).Add(x.B, sg)
		t.Mul(t, inv2)
		mod(t)
		r0, ok := SqrtFp(t)
		if !ok || r0.Sign() == 0 {
			continue
		}
		d := new(big.Int).Lsh(r0, 1)
		d.ModInverse(mod(d), P)
		r1 := new(big.Int).Mul(x.A, d)
		c := NewFp2(r1, r0)
		if check(c) {
			return c, true
		}
	}
	return Fp2{}, false
}

// TwistB = 3/(i+3).
var TwistB = NewFp2(big.NewInt(0), big.NewInt(3)).Mul(NewFp2(big.NewInt(1), big.NewInt(3)).Inv())

// TwistOnCurve judges y^2 = x^3 + 3/(i+3).
func TwistOnCurve(x, y Fp2) bool {
	return y.Mul(y).Equal(x.Mul(x).Mul(x).Add(TwistB))
}

// TwistFromX returns y with (x,y) on the twist when x^3+b' is a square.
func TwistFromX(x Fp2) (Fp2, bool) {
	return x.Mul(x).Mul(x).Add(TwistB).Sqrt()
}

// G2Parse splits 128 bytes (x.A, x.B, y.A, y.B — imaginary part first, the
// layout of bn256.G2.Marshal) into raw unreduced coordinates.
func G2Parse(b []byte) (c [4]*big.Int, ok bool) {
	if len(b) < 128 {
		return c, false
	}
	for i := 0; i < 4; i++ {
		c[i] = new(big.Int).SetBytes(b[32*i : 32*i+32])
	}
	return c, true
}

// G2Bytes encodes an affine twist point in the bn256.G2.Marshal layout.
func G2Bytes(x, y Fp2) []byte {
	out := append(pad32(x.A), pad32(x.B)...)
	out = append(out, pad32(y.A)...)
	return append(out, pad32(y.B)...)
}
