// Package evmref is an independent reference interpreter for the computational
// subset of the EVM, written from the Yellow Paper / EIP texts (EIP-145 shifts,
// EIP-3855 PUSH0, EIP-5656 MCOPY, EIP-140 REVERT) on math/big with explicit
// reduction mod 2^256. It imports nothing from go-rangers and does not use
// holiman/uint256. Gas is not modelled; instead the caller gives two memory
// limits: a request for memory >= MemHard is "certainly out of gas" (Fail), one
// above MemSoft (or more than MaxSteps steps) makes the run Gray (not judged).
package evmref

import (
	"math/big"

	"golang.org/x/crypto/sha3"
)

var (
	one     = big.NewInt(1)
	two256  = new(big.Int).Lsh(one, 256)
	two255  = new(big.Int).Lsh(one, 255)
	mask256 = new(big.Int).Sub(two256, one)
	big31   = big.NewInt(31)
	big32   = big.NewInt(32)
	big256  = big.NewInt(256)
	bigFF   = big.NewInt(0xff)
)

// Class of the outcome of a run.
type Class int

const (
	Success    Class = iota // STOP / RETURN / running off the end of the code
	Revert                  // REVERT (return data kept)
	Fail                    // exceptional halt: no return data
	Gray                    // resource use in the zone where gas decides: not judged
	OutOfScope              // executed an opcode outside the computational set
)

func (c Class) String() string {
	return [...]string{"success", "revert", "fail", "gray", "out-of-scope"}[c]
}

// Step is the machine state seen immediately before an instruction is
// validated and executed.
type Step struct {
	PC       uint64
	Op       byte
	StackLen int
	MemLen   int
}

// Config selects the fork-dependent opcodes and the resource classes.
type Config struct {
	Push0    bool   // EIP-3855 active
	Mcopy    bool   // EIP-5656 active
	MemSoft  uint64 // bytes; a larger request (below MemHard) => Gray
	MemHard  uint64 // bytes; a request >= MemHard is certainly out of gas => Fail
	MaxSteps int
	Trace    bool
}

// Result of a run.
type Result struct {
	Class  Class
	Ret    []byte
	Reason string // for Fail / Gray / OutOfScope
	LastPC uint64
	LastOp byte
	Steps  int
	Trace  []Step
	Hist   [256]uint32 // instructions that completed (halting instructions included)
	Stack  []*big.Int  // final stack (bottom first)
	MemLen int
}

type opInfo struct {
	name string
	pops int
	push int
	in   bool // member of the computational set
}

var ops [256]opInfo

func def(op byte, name string, pops, push int) { ops[op] = opInfo{name, pops, push, true} }

func init() {
	def(0x00, "STOP", 0, 0)
	def(0x01, "ADD", 2, 1)
	def(0x02, "MUL", 2, 1)
	def(0x03, "SUB", 2, 1)
	def(0x04, "DIV", 2, 1)
	def(0x05, "SDIV", 2, 1)
	def(0x06, "MOD", 2, 1)
	def(0x07, "SMOD", 2, 1)
	def(0x08, "ADDMOD", 3, 1)
	def(0x09, "MULMOD", 3, 1)
	def(0x0a, "EXP", 2, 1)
	def(0x0b, "SIGNEXTEND", 2, 1)
	def(0x10, "LT", 2, 1)
	def(0x11, "GT", 2, 1)
	def(0x12, "SLT", 2, 1)
	def(0x13, "SGT", 2, 1)
	def(0x14, "EQ", 2, 1)
	def(0x15, "ISZERO", 1, 1)
	def(0x16, "AND", 2, 1)
	def(0x17, "OR", 2, 1)
	def(0x18, "XOR", 2, 1)
	def(0x19, "NOT", 1, 1)
	def(0x1a, "BYTE", 2, 1)
	def(0x1b, "SHL", 2, 1)
	def(0x1c, "SHR", 2, 1)
	def(0x1d, "SAR", 2, 1)
	def(0x20, "KECCAK256", 2, 1)
	def(0x35, "CALLDATALOAD", 1, 1)
	def(0x36, "CALLDATASIZE", 0, 1)
	def(0x37, "CALLDATACOPY", 3, 0)
	def(0x38, "CODESIZE", 0, 1)
	def(0x39, "CODECOPY", 3, 0)
	def(0x50, "POP", 1, 0)
	def(0x51, "MLOAD", 1, 1)
	def(0x52, "MSTORE", 2, 0)
	def(0x53, "MSTORE8", 2, 0)
	def(0x56, "JUMP", 1, 0)
	def(0x57, "JUMPI", 2, 0)
	def(0x58, "PC", 0, 1)
	def(0x59, "MSIZE", 0, 1)
	def(0x5b, "JUMPDEST", 0, 0)
	def(0x5e, "MCOPY", 3, 0)
	def(0x5f, "PUSH0", 0, 1)
	for i := 1; i <= 32; i++ {
		def(byte(0x5f+i), "PUSH"+itoa(i), 0, 1)
	}
	for i := 1; i <= 16; i++ {
		def(byte(0x7f+i), "DUP"+itoa(i), i, i+1)
		def(byte(0x8f+i), "SWAP"+itoa(i), i+1, i+1)
	}
	def(0xf3, "RETURN", 2, 0)
	def(0xfd, "REVERT", 2, 0)
	def(0xfe, "INVALID", 0, 0)
}

func itoa(i int) string {
	if i < 10 {
		return string([]byte{byte('0' + i)})
	}
	return string([]byte{byte('0' + i/10), byte('0' + i%10)})
}

// InSet reports whether op belongs to the computational opcode set of the
// reference (PUSH0 / MCOPY are members; whether they are *active* is Config).
func InSet(op byte) bool { return ops[op].in }

// Name returns the mnemonic of a set member, or "0x.." otherwise.
func Name(op byte) string {
	if ops[op].in {
		return ops[op].name
	}
	const hexd = "0123456789abcdef"
	return "0x" + string([]byte{hexd[op>>4], hexd[op&15]})
}

// StackEffect returns (items required, items after - items before).
func StackEffect(op byte) (pops int, delta int) {
	return ops[op].pops, ops[op].push - ops[op].pops
}

// neverAssigned lists byte values that no Ethereum fork up to Cancun assigns
// (and that are not 0xfe); executing one is an exceptional halt.
func neverAssigned(op byte) bool {
	switch {
	case op >= 0x0c && op <= 0x0f, op == 0x1e, op == 0x1f, op >= 0x21 && op <= 0x2f,
		op >= 0x4b && op <= 0x4f, op >= 0xa5 && op <= 0xe9, op == 0xf8, op == 0xf9, op == 0xfb, op == 0xfc:
		return true
	}
	return false
}

// NeverAssigned is exported for generators.
func NeverAssigned(op byte) bool { return neverAssigned(op) }

// JumpDests is the reference jump-destination analysis: position i is a valid
// destination iff code[i] == 0x5b and i is not inside the immediate data of a
// PUSH1..PUSH32 found by a linear sweep from 0.
func JumpDests(code []byte) []bool {
	v := make([]bool, len(code))
	for i := 0; i < len(code); {
		b := code[i]
		if b >= 0x60 && b <= 0x7f {
			i += int(b-0x5f) + 1
			continue
		}
		if b == 0x5b {
			v[i] = true
		}
		i++
	}
	return v
}

func u256(x *big.Int) *big.Int {
	if x.Sign() < 0 || x.BitLen() > 256 {
		return new(big.Int).Mod(x, two256) // Euclidean: result in [0, 2^256)
	}
	return x
}

// signed interprets a word as a two's complement 256-bit integer.
func signed(x *big.Int) *big.Int {
	if x.Cmp(two255) >= 0 {
		return new(big.Int).Sub(x, two256)
	}
	return x
}

func boolWord(b bool) *big.Int {
	if b {
		return big.NewInt(1)
	}
	return new(big.Int)
}

// Word32 returns the 32-byte big-endian encoding of a word.
func Word32(x *big.Int) []byte {
	out := make([]byte, 32)
	b := x.Bytes()
	copy(out[32-len(b):], b)
	return out
}

type machine struct {
	cfg   *Config
	code  []byte
	data  []byte
	stack []*big.Int
	mem   []byte
	res   *Result
}

type halt struct {
	class  Class
	reason string
}

func (m *machine) pop() *big.Int {
	x := m.stack[len(m.stack)-1]
	m.stack = m.stack[:len(m.stack)-1]
	return x
}
func (m *machine) push(x *big.Int) { m.stack = append(m.stack, x) }

// touch expands memory so that [off, off+size) is addressable. size == 0
// touches nothing, whatever off is.
func (m *machine) touch(off, size *big.Int) *halt {
	if size.Sign() == 0 {
		return nil
	}
	need := new(big.Int).Add(off, size)
	if !need.IsUint64() || need.Uint64() >= m.cfg.MemHard {
		return &halt{Fail, "memory-out-of-gas"}
	}
	n := need.Uint64()
	if n > m.cfg.MemSoft {
		return &halt{Gray, "memory-gray-zone"}
	}
	n = (n + 31) / 32 * 32
	if n > uint64(len(m.mem)) {
		m.mem = append(m.mem, make([]byte, n-uint64(len(m.mem)))...)
	}
	return nil
}

// slice returns size bytes of src starting at off, zero padded past the end.
func padded(src []byte, off *big.Int, size uint64) []byte {
	out := make([]byte, size)
	if off.IsUint64() && off.Uint64() < uint64(len(src)) {
		copy(out, src[off.Uint64():])
	}
	return out
}

// Run executes code with the given call data.
func Run(code, calldata []byte, cfg *Config) *Result {
	m := &machine{cfg: cfg, code: code, data: calldata, res: &Result{}}
	res := m.res
	jd := JumpDests(code)
	var pc uint64
	finish := func(c Class, reason string, ret []byte) *Result {
		res.Class, res.Reason, res.Ret = c, reason, ret
		res.Stack, res.MemLen = m.stack, len(m.mem)
		return res
	}
	for {
		if res.Steps >= cfg.MaxSteps {
			return finish(Gray, "step-limit", nil)
		}
		var op byte // running off the end of the code reads STOP
		if pc < uint64(len(code)) {
			op = code[pc]
		}
		res.Steps++
		res.LastPC, res.LastOp = pc, op
		if cfg.Trace {
			res.Trace = append(res.Trace, Step{pc, op, len(m.stack), len(m.mem)})
		}
		info := ops[op]
		switch {
		case op == 0xfe:
			return finish(Fail, "invalid-instruction", nil)
		case op == 0x5f && !cfg.Push0, op == 0x5e && !cfg.Mcopy:
			return finish(Fail, "undefined-instruction", nil)
		case !info.in:
			if neverAssigned(op) {
				return finish(Fail, "undefined-instruction", nil)
			}
			return finish(OutOfScope, "opcode "+Name(op), nil)
		}
		if len(m.stack) < info.pops {
			return finish(Fail, "stack-underflow", nil)
		}
		if len(m.stack)-info.pops+info.push > 1024 {
			return finish(Fail, "stack-overflow", nil)
		}
		next := pc + 1
		switch {
		case op == 0x00: // STOP
			res.Hist[op]++
			return finish(Success, "", nil)

		case op >= 0x01 && op <= 0x0b && op != 0x08 && op != 0x09,
			op >= 0x10 && op <= 0x14, op >= 0x16 && op <= 0x18, op >= 0x1a && op <= 0x1d:
			a, b := m.pop(), m.pop()
			m.push(Binary(op, a, b))
		case op == 0x08 || op == 0x09:
			a, b, n := m.pop(), m.pop(), m.pop()
			m.push(Ternary(op, a, b, n))
		case op == 0x15: // ISZERO
			m.push(boolWord(m.pop().Sign() == 0))
		case op == 0x19: // NOT
			m.push(new(big.Int).Sub(mask256, m.pop()))

		case op == 0x20: // KECCAK256
			off, size := m.pop(), m.pop()
			if h := m.touch(off, size); h != nil {
				return finish(h.class, h.reason, nil)
			}
			k := sha3.NewLegacyKeccak256()
			if size.Sign() != 0 {
				k.Write(m.mem[off.Uint64() : off.Uint64()+size.Uint64()])
			}
			m.push(new(big.Int).SetBytes(k.Sum(nil)))

		case op == 0x35: // CALLDATALOAD
			m.push(new(big.Int).SetBytes(padded(m.data, m.pop(), 32)))
		case op == 0x36:
			m.push(big.NewInt(int64(len(m.data))))
		case op == 0x38:
			m.push(big.NewInt(int64(len(m.code))))
		case op == 0x37 || op == 0x39: // CALLDATACOPY / CODECOPY
			dst, off, size := m.pop(), m.pop(), m.pop()
			if h := m.touch(dst, size); h != nil {
				return finish(h.class, h.reason, nil)
			}
			if size.Sign() != 0 {
				src := m.data
				if op == 0x39 {
					src = m.code
				}
				copy(m.mem[dst.Uint64():], padded(src, off, size.Uint64()))
			}

		case op == 0x50:
			m.pop()
		case op == 0x51: // MLOAD
			off := m.pop()
			if h := m.touch(off, big32); h != nil {
				return finish(h.class, h.reason, nil)
			}
			m.push(new(big.Int).SetBytes(m.mem[off.Uint64() : off.Uint64()+32]))
		case op == 0x52: // MSTORE
			off, val := m.pop(), m.pop()
			if h := m.touch(off, big32); h != nil {
				return finish(h.class, h.reason, nil)
			}
			copy(m.mem[off.Uint64():], Word32(val))
		case op == 0x53: // MSTORE8
			off, val := m.pop(), m.pop()
			if h := m.touch(off, one); h != nil {
				return finish(h.class, h.reason, nil)
			}
			m.mem[off.Uint64()] = byte(new(big.Int).And(val, bigFF).Uint64())
		case op == 0x5e: // MCOPY
			dst, src, size := m.pop(), m.pop(), m.pop()
			hi := dst
			if src.Cmp(dst) > 0 {
				hi = src
			}
			if h := m.touch(hi, size); h != nil {
				return finish(h.class, h.reason, nil)
			}
			if size.Sign() != 0 {
				tmp := make([]byte, size.Uint64())
				copy(tmp, m.mem[src.Uint64():src.Uint64()+size.Uint64()])
				copy(m.mem[dst.Uint64():], tmp)
			}

		case op == 0x56: // JUMP
			dst := m.pop()
			if !dst.IsUint64() || dst.Uint64() >= uint64(len(code)) || !jd[dst.Uint64()] {
				return finish(Fail, "bad-jump", nil)
			}
			next = dst.Uint64()
		case op == 0x57: // JUMPI
			dst, cond := m.pop(), m.pop()
			if cond.Sign() != 0 {
				if !dst.IsUint64() || dst.Uint64() >= uint64(len(code)) || !jd[dst.Uint64()] {
					return finish(Fail, "bad-jump", nil)
				}
				next = dst.Uint64()
			}
		case op == 0x58:
			m.push(new(big.Int).SetUint64(pc))
		case op == 0x59:
			m.push(big.NewInt(int64(len(m.mem))))
		case op == 0x5b:
		case op == 0x5f:
			m.push(new(big.Int))
		case op >= 0x60 && op <= 0x7f: // PUSHn: bytes past the end of the code read as zero
			n := uint64(op - 0x5f)
			buf := make([]byte, n)
			if pc+1 < uint64(len(code)) {
				copy(buf, code[pc+1:])
			}
			m.push(new(big.Int).SetBytes(buf))
			next = pc + 1 + n
		case op >= 0x80 && op <= 0x8f: // DUPn
			m.push(m.stack[len(m.stack)-int(op-0x7f)])
		case op >= 0x90 && op <= 0x9f: // SWAPn
			i, j := len(m.stack)-1, len(m.stack)-1-int(op-0x8f)
			m.stack[i], m.stack[j] = m.stack[j], m.stack[i]

		case op == 0xf3 || op == 0xfd: // RETURN / REVERT
			off, size := m.pop(), m.pop()
			if h := m.touch(off, size); h != nil {
				return finish(h.class, h.reason, nil)
			}
			ret := []byte{}
			if size.Sign() != 0 {
				ret = append(ret, m.mem[off.Uint64():off.Uint64()+size.Uint64()]...)
			}
			res.Hist[op]++
			if op == 0xfd {
				return finish(Revert, "", ret)
			}
			return finish(Success, "", ret)
		default:
			return finish(OutOfScope, "opcode "+Name(op), nil)
		}
		res.Hist[op]++
		pc = next
	}
}

// Binary gives the result word of a two-operand instruction; a is the top of
// the stack, b the item below it.
func Binary(op byte, a, b *big.Int) *big.Int {
	z := new(big.Int)
	switch op {
	case 0x01:
		return u256(z.Add(a, b))
	case 0x02:
		return u256(z.Mul(a, b))
	case 0x03:
		return u256(z.Sub(a, b))
	case 0x04:
		if b.Sign() == 0 {
			return z
		}
		return z.Quo(a, b)
	case 0x05: // SDIV: truncation toward zero; -2^255 / -1 wraps to -2^255
		if b.Sign() == 0 {
			return z
		}
		return u256(z.Quo(signed(a), signed(b)))
	case 0x06:
		if b.Sign() == 0 {
			return z
		}
		return z.Rem(a, b)
	case 0x07: // SMOD: sign of the dividend
		if b.Sign() == 0 {
			return z
		}
		return u256(z.Rem(signed(a), signed(b)))
	case 0x0a:
		return z.Exp(a, b, two256)
	case 0x0b: // SIGNEXTEND: a = index of the byte holding the sign bit, b = value
		if a.Cmp(big31) >= 0 {
			return b
		}
		t := uint(a.Uint64())*8 + 7
		low := new(big.Int).Sub(new(big.Int).Lsh(one, t+1), one) // bits 0..t
		if b.Bit(int(t)) == 1 {
			return z.Or(b, new(big.Int).Sub(mask256, low))
		}
		return z.And(b, low)
	case 0x10:
		return boolWord(a.Cmp(b) < 0)
	case 0x11:
		return boolWord(a.Cmp(b) > 0)
	case 0x12:
		return boolWord(signed(a).Cmp(signed(b)) < 0)
	case 0x13:
		return boolWord(signed(a).Cmp(signed(b)) > 0)
	case 0x14:
		return boolWord(a.Cmp(b) == 0)
	case 0x16:
		return z.And(a, b)
	case 0x17:
		return z.Or(a, b)
	case 0x18:
		return z.Xor(a, b)
	case 0x1a: // BYTE: a = index from the most significant byte, b = value
		if a.Cmp(big32) >= 0 {
			return z
		}
		return z.And(z.Rsh(b, 8*(31-uint(a.Uint64()))), bigFF)
	case 0x1b: // SHL: a = shift, b = value
		if a.Cmp(big256) >= 0 {
			return z
		}
		return u256(z.Lsh(b, uint(a.Uint64())))
	case 0x1c:
		if a.Cmp(big256) >= 0 {
			return z
		}
		return z.Rsh(b, uint(a.Uint64()))
	case 0x1d: // SAR: floor(signed(b) / 2^a)
		sb := signed(b)
		if a.Cmp(big256) >= 0 {
			if sb.Sign() < 0 {
				return new(big.Int).Set(mask256)
			}
			return z
		}
		return u256(z.Rsh(sb, uint(a.Uint64()))) // big.Int.Rsh on negatives is an arithmetic shift
	}
	panic("evmref: not a binary op")
}

// Ternary gives ADDMOD / MULMOD of (a, b) modulo n computed without the
// intermediate wrapping at 2^256; a zero modulus yields zero.
func Ternary(op byte, a, b, n *big.Int) *big.Int {
	z := new(big.Int)
	if n.Sign() == 0 {
		return z
	}
	if op == 0x08 {
		return z.Rem(z.Add(a, b), n)
	}
	return z.Rem(z.Mul(a, b), n)
}
