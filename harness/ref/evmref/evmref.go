// Package evmref is an independent reference interpreter for the computational
// subset of the EVM, written from the Yellow Paper / EIP texts (EIP-145 shifts,
// EIP-3855 PUSH0, EIP-5656 MCOPY, EIP-140 REVERT) on math/big with explicit
// reduction mod 2^256. It imports nothing from go-rangers and does not use
// holiman/uint256. Gas is not modelled; instead the caller gives two memory
// limits: a request for memory >= MemHard is "certainly out of gas" (Fail), one
// above MemSoft (or more than MaxSteps steps) makes the run Gray (not judged).
//
// Besides the computational set the reference executes CREATE (value 0 only),
// SLOAD and SSTORE over its own world state, so that several hash-less initcodes
// can run inside one call tree; CALL / CALLCODE / DELEGATECALL / STATICCALL
// (value 0, ample gas) to the precompiles 2, 3, 4 and to accounts of its world,
// with the EIP-211 return-data buffer (RETURNDATASIZE / RETURNDATACOPY); and it knows the stack arity of every other
// Ethereum opcode up to Cancun, so that stack under/overflow is judged for them
// too. Environment pushers (ADDRESS, ORIGIN, ..., GAS) push an opaque word: its
// value is never judged, a run that consumes it is OutOfScope from there on.
package evmref

import (
	"crypto/sha256"
	"math/big"

	"golang.org/x/crypto/ripemd160"
	"golang.org/x/crypto/sha3"
)

var (
	one     = big.NewInt(1)
	two256  = new(big.Int).Lsh(one, 256)
	two255  = new(big.Int).Lsh(one, 255)
	mask256 = new(big.Int).Sub(two256, one)
	big31   = big.NewInt(31)
	big32   = big.NewInt(32)
	big256  = big.NewInt(256)
	bigFF   = big.NewInt(0xff)
)

// Class of the outcome of a run.
type Class int

const (
	Success    Class = iota // STOP / RETURN / running off the end of the code
	Revert                  // REVERT (return data kept)
	Fail                    // exceptional halt: no return data
	Gray                    // resource use in the zone where gas decides: not judged
	OutOfScope              // executed an opcode outside the computational set
)

func (c Class) String() string {
	return [...]string{"success", "revert", "fail", "gray", "out-of-scope"}[c]
}

// Step is the machine state seen immediately before an instruction is
// validated and executed.
type Step struct {
	Depth    int // 1 = the top frame
	PC       uint64
	Op       byte
	StackLen int
	MemLen   int
}

// Config selects the fork-dependent opcodes and the resource classes.
type Config struct {
	Push0    bool   // EIP-3855 active
	Mcopy    bool   // EIP-5656 active
	MemSoft  uint64 // bytes; a larger request (below MemHard) => Gray
	MemHard  uint64 // bytes; a request >= MemHard is certainly out of gas => Fail
	MaxSteps int
	Trace    bool
	Self     Address // account whose code the top frame runs (call) / the creator (top-level create)
	Origin   Address // caller of the top frame
}

// Address is a 20-byte account address.
type Address [20]byte

// Account is the part of an account the reference models.
type Account struct {
	Nonce   uint64
	Code    []byte
	Storage map[[32]byte]*big.Int // zero values are deleted
}

// World is the reference's state.
type World struct{ Acc map[Address]*Account }

func (w *World) copy() *World {
	c := &World{Acc: make(map[Address]*Account, len(w.Acc))}
	for a, acc := range w.Acc {
		n := &Account{Nonce: acc.Nonce, Code: acc.Code, Storage: make(map[[32]byte]*big.Int, len(acc.Storage))}
		for k, v := range acc.Storage {
			n.Storage[k] = v
		}
		c.Acc[a] = n
	}
	return c
}

func (w *World) get(a Address) *Account {
	acc := w.Acc[a]
	if acc == nil {
		acc = &Account{Storage: map[[32]byte]*big.Int{}}
		w.Acc[a] = acc
	}
	return acc
}

// Result of a run.
type Result struct {
	Class  Class
	Ret    []byte
	Reason string // for Fail / Gray / OutOfScope
	LastPC uint64
	LastOp byte
	Steps  int
	Trace  []Step
	Hist   [256]uint32 // instructions that completed (halting instructions included)
	Stack  []*big.Int  // final stack of the top frame (bottom first)
	MemLen int

	World          *World                        // final state (after the top-level revert, if any)
	Created        []Address                     // every address a CREATE (or the top-level creation) targeted, in order
	Touched        map[Address]map[[32]byte]bool // storage keys written at any time (also in reverted frames)
	FailedChildren int                           // creations that ended in an exceptional halt (each burns 63/64 of the gas left)
	MaxDepth       int
	NewAddress     Address // top-level creation: the address of the new contract
}

type opInfo struct {
	name   string
	pops   int
	push   int
	in     bool // member of the computational set
	spec   bool // an Ethereum opcode (<= Cancun) whose stack arity is known
	opaque bool // nullary environment pusher: pushes a word whose value is not judged
	impl   bool // outside the computational set but executed by the reference
}

var ops [256]opInfo

func def(op byte, name string, pops, push int) {
	ops[op] = opInfo{name: name, pops: pops, push: push, in: true, spec: true}
}

// other declares an opcode outside the computational set.
func other(op byte, name string, pops, push int) {
	ops[op] = opInfo{name: name, pops: pops, push: push, spec: true, opaque: pops == 0 && push == 1}
}

func init() {
	def(0x00, "STOP", 0, 0)
	def(0x01, "ADD", 2, 1)
	def(0x02, "MUL", 2, 1)
	def(0x03, "SUB", 2, 1)
	def(0x04, "DIV", 2, 1)
	def(0x05, "SDIV", 2, 1)
	def(0x06, "MOD", 2, 1)
	def(0x07, "SMOD", 2, 1)
	def(0x08, "ADDMOD", 3, 1)
	def(0x09, "MULMOD", 3, 1)
	def(0x0a, "EXP", 2, 1)
	def(0x0b, "SIGNEXTEND", 2, 1)
	def(0x10, "LT", 2, 1)
	def(0x11, "GT", 2, 1)
	def(0x12, "SLT", 2, 1)
	def(0x13, "SGT", 2, 1)
	def(0x14, "EQ", 2, 1)
	def(0x15, "ISZERO", 1, 1)
	def(0x16, "AND", 2, 1)
	def(0x17, "OR", 2, 1)
	def(0x18, "XOR", 2, 1)
	def(0x19, "NOT", 1, 1)
	def(0x1a, "BYTE", 2, 1)
	def(0x1b, "SHL", 2, 1)
	def(0x1c, "SHR", 2, 1)
	def(0x1d, "SAR", 2, 1)
	def(0x20, "KECCAK256", 2, 1)
	def(0x35, "CALLDATALOAD", 1, 1)
	def(0x36, "CALLDATASIZE", 0, 1)
	def(0x37, "CALLDATACOPY", 3, 0)
	def(0x38, "CODESIZE", 0, 1)
	def(0x39, "CODECOPY", 3, 0)
	def(0x50, "POP", 1, 0)
	def(0x51, "MLOAD", 1, 1)
	def(0x52, "MSTORE", 2, 0)
	def(0x53, "MSTORE8", 2, 0)
	def(0x56, "JUMP", 1, 0)
	def(0x57, "JUMPI", 2, 0)
	def(0x58, "PC", 0, 1)
	def(0x59, "MSIZE", 0, 1)
	def(0x5b, "JUMPDEST", 0, 0)
	def(0x5e, "MCOPY", 3, 0)
	def(0x5f, "PUSH0", 0, 1)
	for i := 1; i <= 32; i++ {
		def(byte(0x5f+i), "PUSH"+itoa(i), 0, 1)
	}
	for i := 1; i <= 16; i++ {
		def(byte(0x7f+i), "DUP"+itoa(i), i, i+1)
		def(byte(0x8f+i), "SWAP"+itoa(i), i+1, i+1)
	}
	def(0xf3, "RETURN", 2, 0)
	def(0xfd, "REVERT", 2, 0)
	def(0xfe, "INVALID", 0, 0)

	other(0x30, "ADDRESS", 0, 1)
	other(0x31, "BALANCE", 1, 1)
	other(0x32, "ORIGIN", 0, 1)
	other(0x33, "CALLER", 0, 1)
	other(0x34, "CALLVALUE", 0, 1)
	other(0x3a, "GASPRICE", 0, 1)
	other(0x3b, "EXTCODESIZE", 1, 1)
	other(0x3c, "EXTCODECOPY", 4, 0)
	other(0x3d, "RETURNDATASIZE", 0, 1)
	other(0x3e, "RETURNDATACOPY", 3, 0)
	other(0x3f, "EXTCODEHASH", 1, 1)
	other(0x40, "BLOCKHASH", 1, 1)
	other(0x41, "COINBASE", 0, 1)
	other(0x42, "TIMESTAMP", 0, 1)
	other(0x43, "NUMBER", 0, 1)
	other(0x44, "PREVRANDAO", 0, 1)
	other(0x45, "GASLIMIT", 0, 1)
	other(0x46, "CHAINID", 0, 1)
	other(0x47, "SELFBALANCE", 0, 1)
	other(0x48, "BASEFEE", 0, 1)
	other(0x49, "BLOBHASH", 1, 1)
	other(0x4a, "BLOBBASEFEE", 0, 1)
	other(0x54, "SLOAD", 1, 1)
	other(0x55, "SSTORE", 2, 0)
	other(0x5a, "GAS", 0, 1)
	other(0x5c, "TLOAD", 1, 1)
	other(0x5d, "TSTORE", 2, 0)
	for i := 0; i <= 4; i++ {
		other(byte(0xa0+i), "LOG"+itoa(i), 2+i, 0)
	}
	other(0xf0, "CREATE", 3, 1)
	other(0xf1, "CALL", 7, 1)
	other(0xf2, "CALLCODE", 7, 1)
	other(0xf4, "DELEGATECALL", 6, 1)
	other(0xf5, "CREATE2", 4, 1)
	other(0xfa, "STATICCALL", 6, 1)
	other(0xff, "SELFDESTRUCT", 1, 0)
	for _, op := range []byte{0x54, 0x55, 0xf0, 0x3d, 0x3e, 0xf1, 0xf2, 0xf4, 0xfa} {
		o := ops[op]
		o.impl, o.opaque = true, false
		ops[op] = o
	}
}

// Spec reports whether op is an Ethereum opcode (<= Cancun) and its stack
// arity (items required, items pushed).
func Spec(op byte) (known bool, pops, push int) { return ops[op].spec, ops[op].pops, ops[op].push }

func itoa(i int) string {
	if i < 10 {
		return string([]byte{byte('0' + i)})
	}
	return string([]byte{byte('0' + i/10), byte('0' + i%10)})
}

// InSet reports whether op belongs to the computational opcode set of the
// reference (PUSH0 / MCOPY are members; whether they are *active* is Config).
func InSet(op byte) bool { return ops[op].in }

// Name returns the mnemonic of a set member, or "0x.." otherwise.
func Name(op byte) string {
	if ops[op].spec {
		return ops[op].name
	}
	const hexd = "0123456789abcdef"
	return "0x" + string([]byte{hexd[op>>4], hexd[op&15]})
}

// StackEffect returns (items required, items after - items before).
func StackEffect(op byte) (pops int, delta int) {
	return ops[op].pops, ops[op].push - ops[op].pops
}

// neverAssigned lists byte values that no Ethereum fork up to Cancun assigns
// (and that are not 0xfe); executing one is an exceptional halt.
func neverAssigned(op byte) bool {
	switch {
	case op >= 0x0c && op <= 0x0f, op == 0x1e, op == 0x1f, op >= 0x21 && op <= 0x2f,
		op >= 0x4b && op <= 0x4f, op >= 0xa5 && op <= 0xe9, op == 0xf8, op == 0xf9, op == 0xfb, op == 0xfc:
		return true
	}
	return false
}

// NeverAssigned is exported for generators.
func NeverAssigned(op byte) bool { return neverAssigned(op) }

// JumpDests is the reference jump-destination analysis: position i is a valid
// destination iff code[i] == 0x5b and i is not inside the immediate data of a
// PUSH1..PUSH32 found by a linear sweep from 0.
func JumpDests(code []byte) []bool {
	v := make([]bool, len(code))
	for i := 0; i < len(code); {
		b := code[i]
		if b >= 0x60 && b <= 0x7f {
			i += int(b-0x5f) + 1
			continue
		}
		if b == 0x5b {
			v[i] = true
		}
		i++
	}
	return v
}

func u256(x *big.Int) *big.Int {
	if x.Sign() < 0 || x.BitLen() > 256 {
		return new(big.Int).Mod(x, two256) // Euclidean: result in [0, 2^256)
	}
	return x
}

// signed interprets a word as a two's complement 256-bit integer.
func signed(x *big.Int) *big.Int {
	if x.Cmp(two255) >= 0 {
		return new(big.Int).Sub(x, two256)
	}
	return x
}

func boolWord(b bool) *big.Int {
	if b {
		return big.NewInt(1)
	}
	return new(big.Int)
}

// Word32 returns the 32-byte big-endian encoding of a word.
func Word32(x *big.Int) []byte {
	out := make([]byte, 32)
	b := x.Bytes()
	copy(out[32-len(b):], b)
	return out
}

// opaque is the word pushed by environment instructions; its value is not known
// to the reference. Moving it around (POP / DUP / SWAP) is fine, consuming it
// taints the run.
var opaque = new(big.Int)

type run struct {
	cfg     *Config
	res     *Result
	world   *World
	tainted bool
}

// machine is one call frame.
type machine struct {
	run    *run
	cfg    *Config
	code   []byte
	data   []byte
	self   Address
	depth  int
	static bool   // inside a STATICCALL: state changes halt exceptionally
	ret    []byte // EIP-211 return-data buffer of this frame
	stack  []*big.Int
	mem    []byte
	res    *Result
	reason string
}

type halt struct {
	class  Class
	reason string
}

func (m *machine) pop() *big.Int {
	x := m.stack[len(m.stack)-1]
	m.stack = m.stack[:len(m.stack)-1]
	if x == opaque {
		m.run.tainted = true
	}
	return x
}
func (m *machine) push(x *big.Int) { m.stack = append(m.stack, x) }

// touch expands memory so that [off, off+size) is addressable. size == 0
// touches nothing, whatever off is.
func (m *machine) touch(off, size *big.Int) *halt {
	if size.Sign() == 0 {
		return nil
	}
	need := new(big.Int).Add(off, size)
	if !need.IsUint64() || need.Uint64() >= m.cfg.MemHard {
		return &halt{Fail, "memory-out-of-gas"}
	}
	n := need.Uint64()
	if n > m.cfg.MemSoft {
		return &halt{Gray, "memory-gray-zone"}
	}
	n = (n + 31) / 32 * 32
	if n > uint64(len(m.mem)) {
		m.mem = append(m.mem, make([]byte, n-uint64(len(m.mem)))...)
	}
	return nil
}

// slice returns size bytes of src starting at off, zero padded past the end.
func padded(src []byte, off *big.Int, size uint64) []byte {
	out := make([]byte, size)
	if off.IsUint64() && off.Uint64() < uint64(len(src)) {
		copy(out, src[off.Uint64():])
	}
	return out
}

// CreateAddress is keccak256(rlp([sender, nonce]))[12:].
func CreateAddress(sender Address, nonce uint64) Address {
	var nb []byte
	switch {
	case nonce == 0:
		nb = []byte{0x80}
	case nonce < 0x80:
		nb = []byte{byte(nonce)}
	default:
		raw := new(big.Int).SetUint64(nonce).Bytes()
		nb = append([]byte{byte(0x80 + len(raw))}, raw...)
	}
	payload := append(append([]byte{0x94}, sender[:]...), nb...)
	enc := append([]byte{byte(0xc0 + len(payload))}, payload...)
	k := sha3.NewLegacyKeccak256()
	k.Write(enc)
	var a Address
	copy(a[:], k.Sum(nil)[12:])
	return a
}

func newRun(cfg *Config) *run {
	res := &Result{Touched: map[Address]map[[32]byte]bool{}}
	return &run{cfg: cfg, res: res, world: &World{Acc: map[Address]*Account{}}}
}

func (r *run) finish(m *machine, c Class, reason string, ret []byte) *Result {
	res := r.res
	res.Class, res.Reason, res.Ret = c, reason, ret
	res.Stack, res.MemLen = m.stack, len(m.mem)
	res.World = r.world
	return res
}

// Run executes code (installed at cfg.Self) with the given call data.
func Run(code, calldata []byte, cfg *Config) *Result {
	r := newRun(cfg)
	r.world.get(cfg.Self).Code = code
	initial := r.world.copy()
	m := &machine{run: r, cfg: cfg, code: code, data: calldata, self: cfg.Self, depth: 1, res: r.res}
	c, ret := m.exec()
	if c != Success {
		r.world = initial // a failed / reverted top-level call leaves no trace
	}
	return r.finish(m, c, m.reason, ret)
}

// RunCreate executes initcode as a top-level contract creation sent by
// cfg.Origin (nonce 0). On success Ret is the deployed code.
func RunCreate(initcode []byte, cfg *Config) *Result {
	r := newRun(cfg)
	creator := r.world.get(cfg.Origin)
	addr := CreateAddress(cfg.Origin, creator.Nonce)
	creator.Nonce++
	r.res.NewAddress = addr
	r.res.Created = append(r.res.Created, addr)
	initial := r.world.copy()
	r.world.get(addr).Nonce = 1
	m := &machine{run: r, cfg: cfg, code: initcode, self: addr, depth: 1, res: r.res}
	c, ret := m.exec()
	switch {
	case c == Success && len(ret) > 24576:
		return r.finish(m, Gray, "code-size-above-eip170", nil) // Rangers raises the EIP-170 limit: not judged
	case c == Success:
		r.world.get(addr).Code = ret
	case c == Revert || c == Fail:
		r.world = initial
	}
	return r.finish(m, c, m.reason, ret)
}

// exec runs the frame to its end.
func (m *machine) exec() (Class, []byte) {
	cfg, res, code := m.cfg, m.res, m.code
	jd := JumpDests(code)
	var pc uint64
	if m.depth > res.MaxDepth {
		res.MaxDepth = m.depth
	}
	finish := func(c Class, reason string, ret []byte) (Class, []byte) {
		m.reason = reason
		return c, ret
	}
	if len(code) == 0 { // nothing to execute (not even an implicit STOP step)
		return finish(Success, "", nil)
	}
	for {
		if res.Steps >= cfg.MaxSteps {
			return finish(Gray, "step-limit", nil)
		}
		var op byte // running off the end of the code reads STOP
		if pc < uint64(len(code)) {
			op = code[pc]
		}
		res.Steps++
		res.LastPC, res.LastOp = pc, op
		if cfg.Trace {
			res.Trace = append(res.Trace, Step{m.depth, pc, op, len(m.stack), len(m.mem)})
		}
		info := ops[op]
		switch {
		case op == 0xfe:
			return finish(Fail, "invalid-instruction", nil)
		case op == 0x5f && !cfg.Push0, op == 0x5e && !cfg.Mcopy:
			return finish(Fail, "undefined-instruction", nil)
		case !info.spec:
			if neverAssigned(op) {
				return finish(Fail, "undefined-instruction", nil)
			}
			return finish(OutOfScope, "opcode "+Name(op), nil)
		}
		if len(m.stack) < info.pops {
			return finish(Fail, "stack-underflow", nil)
		}
		if len(m.stack)-info.pops+info.push > 1024 {
			return finish(Fail, "stack-overflow", nil)
		}
		if !info.in && !info.impl && !info.opaque {
			return finish(OutOfScope, "opcode "+Name(op), nil)
		}
		next := pc + 1
		switch {
		case info.opaque:
			m.push(opaque)

		case op == 0x00: // STOP
			res.Hist[op]++
			return finish(Success, "", nil)

		case op >= 0x01 && op <= 0x0b && op != 0x08 && op != 0x09,
			op >= 0x10 && op <= 0x14, op >= 0x16 && op <= 0x18, op >= 0x1a && op <= 0x1d:
			a, b := m.pop(), m.pop()
			m.push(Binary(op, a, b))
		case op == 0x08 || op == 0x09:
			a, b, n := m.pop(), m.pop(), m.pop()
			m.push(Ternary(op, a, b, n))
		case op == 0x15: // ISZERO
			m.push(boolWord(m.pop().Sign() == 0))
		case op == 0x19: // NOT
			m.push(new(big.Int).Sub(mask256, m.pop()))

		case op == 0x20: // KECCAK256
			off, size := m.pop(), m.pop()
			if h := m.touch(off, size); h != nil {
				return finish(h.class, h.reason, nil)
			}
			k := sha3.NewLegacyKeccak256()
			if size.Sign() != 0 {
				k.Write(m.mem[off.Uint64() : off.Uint64()+size.Uint64()])
			}
			m.push(new(big.Int).SetBytes(k.Sum(nil)))

		case op == 0x35: // CALLDATALOAD
			m.push(new(big.Int).SetBytes(padded(m.data, m.pop(), 32)))
		case op == 0x36:
			m.push(big.NewInt(int64(len(m.data))))
		case op == 0x38:
			m.push(big.NewInt(int64(len(m.code))))
		case op == 0x37 || op == 0x39: // CALLDATACOPY / CODECOPY
			dst, off, size := m.pop(), m.pop(), m.pop()
			if h := m.touch(dst, size); h != nil {
				return finish(h.class, h.reason, nil)
			}
			if size.Sign() != 0 {
				src := m.data
				if op == 0x39 {
					src = m.code
				}
				copy(m.mem[dst.Uint64():], padded(src, off, size.Uint64()))
			}

		case op == 0x50: // POP does not look at the word
			m.stack = m.stack[:len(m.stack)-1]
		case op == 0x51: // MLOAD
			off := m.pop()
			if h := m.touch(off, big32); h != nil {
				return finish(h.class, h.reason, nil)
			}
			m.push(new(big.Int).SetBytes(m.mem[off.Uint64() : off.Uint64()+32]))
		case op == 0x52: // MSTORE
			off, val := m.pop(), m.pop()
			if h := m.touch(off, big32); h != nil {
				return finish(h.class, h.reason, nil)
			}
			copy(m.mem[off.Uint64():], Word32(val))
		case op == 0x53: // MSTORE8
			off, val := m.pop(), m.pop()
			if h := m.touch(off, one); h != nil {
				return finish(h.class, h.reason, nil)
			}
			m.mem[off.Uint64()] = byte(new(big.Int).And(val, bigFF).Uint64())
		case op == 0x5e: // MCOPY
			dst, src, size := m.pop(), m.pop(), m.pop()
			hi := dst
			if src.Cmp(dst) > 0 {
				hi = src
			}
			if h := m.touch(hi, size); h != nil {
				return finish(h.class, h.reason, nil)
			}
			if size.Sign() != 0 {
				tmp := make([]byte, size.Uint64())
				copy(tmp, m.mem[src.Uint64():src.Uint64()+size.Uint64()])
				copy(m.mem[dst.Uint64():], tmp)
			}

		case op == 0x54: // SLOAD
			var k [32]byte
			copy(k[:], Word32(m.pop()))
			v := m.run.world.get(m.self).Storage[k]
			if v == nil {
				v = new(big.Int)
			}
			m.push(v)
		case op == 0x55 && m.static:
			return finish(Fail, "write-protection", nil)
		case op == 0x55: // SSTORE
			var k [32]byte
			copy(k[:], Word32(m.pop()))
			v := m.pop()
			if !m.run.tainted {
				if res.Touched[m.self] == nil {
					res.Touched[m.self] = map[[32]byte]bool{}
				}
				res.Touched[m.self][k] = true
				if v.Sign() == 0 {
					delete(m.run.world.get(m.self).Storage, k)
				} else {
					m.run.world.get(m.self).Storage[k] = v
				}
			}

		case op == 0x56: // JUMP
			dst := m.pop()
			if !dst.IsUint64() || dst.Uint64() >= uint64(len(code)) || !jd[dst.Uint64()] {
				if m.run.tainted {
					return finish(OutOfScope, "opaque operand", nil)
				}
				return finish(Fail, "bad-jump", nil)
			}
			next = dst.Uint64()
		case op == 0x57: // JUMPI
			dst, cond := m.pop(), m.pop()
			if m.run.tainted {
				return finish(OutOfScope, "opaque operand", nil)
			}
			if cond.Sign() != 0 {
				if !dst.IsUint64() || dst.Uint64() >= uint64(len(code)) || !jd[dst.Uint64()] {
					return finish(Fail, "bad-jump", nil)
				}
				next = dst.Uint64()
			}
		case op == 0x58:
			m.push(new(big.Int).SetUint64(pc))
		case op == 0x59:
			m.push(big.NewInt(int64(len(m.mem))))
		case op == 0x5b:
		case op == 0x5f:
			m.push(new(big.Int))
		case op >= 0x60 && op <= 0x7f: // PUSHn: bytes past the end of the code read as zero
			n := uint64(op - 0x5f)
			buf := make([]byte, n)
			if pc+1 < uint64(len(code)) {
				copy(buf, code[pc+1:])
			}
			m.push(new(big.Int).SetBytes(buf))
			next = pc + 1 + n
		case op >= 0x80 && op <= 0x8f: // DUPn
			m.push(m.stack[len(m.stack)-int(op-0x7f)])
		case op >= 0x90 && op <= 0x9f: // SWAPn
			i, j := len(m.stack)-1, len(m.stack)-1-int(op-0x8f)
			m.stack[i], m.stack[j] = m.stack[j], m.stack[i]

		case op == 0x3d: // RETURNDATASIZE
			m.push(big.NewInt(int64(len(m.ret))))
		case op == 0x3e: // RETURNDATACOPY: reading past the end of the buffer halts exceptionally
			dst, off, size := m.pop(), m.pop(), m.pop()
			if m.run.tainted {
				return finish(OutOfScope, "opaque operand", nil)
			}
			if h := m.touch(dst, size); h != nil {
				return finish(h.class, h.reason, nil)
			}
			end := new(big.Int).Add(off, size)
			if end.Cmp(big.NewInt(int64(len(m.ret)))) > 0 {
				return finish(Fail, "return-data-out-of-bounds", nil)
			}
			if size.Sign() != 0 {
				copy(m.mem[dst.Uint64():], m.ret[off.Uint64():end.Uint64()])
			}

		case op == 0xf1 || op == 0xf2 || op == 0xf4 || op == 0xfa: // CALL / CALLCODE / DELEGATECALL / STATICCALL
			gas, addrW := m.pop(), m.pop()
			value := new(big.Int)
			if op == 0xf1 || op == 0xf2 {
				value = m.pop()
			}
			inOff, inSize, outOff, outSize := m.pop(), m.pop(), m.pop(), m.pop()
			if m.run.tainted {
				return finish(OutOfScope, "opaque operand", nil)
			}
			if h := m.touch(inOff, inSize); h != nil {
				return finish(h.class, h.reason, nil)
			}
			if h := m.touch(outOff, outSize); h != nil {
				return finish(h.class, h.reason, nil)
			}
			if value.Sign() != 0 {
				return finish(OutOfScope, "call with value", nil)
			}
			if gas.IsUint64() && gas.Uint64() < 10000000 {
				return finish(OutOfScope, "call with a small gas operand", nil)
			}
			if m.depth >= 64 {
				return finish(Gray, "call-depth", nil)
			}
			input := []byte{} // snapshot of the input area at call time
			if inSize.Sign() != 0 {
				input = append(input, m.mem[inOff.Uint64():inOff.Uint64()+inSize.Uint64()]...)
			}
			var target Address
			copy(target[:], Word32(addrW)[12:])
			low := true
			for _, c := range target[:19] {
				low = low && c == 0
			}
			var c Class
			var out []byte
			switch {
			case low && target[19] == 2:
				h := sha256.Sum256(input)
				c, out = Success, h[:]
			case low && target[19] == 3:
				h := ripemd160.New()
				h.Write(input)
				c, out = Success, append(make([]byte, 12), h.Sum(nil)...)
			case low && target[19] == 4:
				c, out = Success, input
			case low:
				return finish(OutOfScope, "call to a low address", nil)
			default:
				var code []byte
				if acc := m.run.world.Acc[target]; acc != nil {
					code = acc.Code
				}
				if len(code) == 0 {
					c = Success
					break
				}
				snapshot := m.run.world.copy()
				child := &machine{run: m.run, cfg: cfg, code: code, data: input, self: target, depth: m.depth + 1, static: m.static || op == 0xfa, res: res}
				if op == 0xf2 || op == 0xf4 {
					child.self = m.self
				}
				c, out = child.exec()
				switch c {
				case Success:
				case Revert:
					m.run.world.Acc = snapshot.Acc
				case Fail:
					res.FailedChildren++
					m.run.world.Acc = snapshot.Acc
					out = nil
				default:
					return finish(c, child.reason, nil)
				}
			}
			m.ret = out
			m.push(boolWord(c == Success))
			if c != Fail && outSize.Sign() != 0 && len(out) > 0 {
				n := outSize.Uint64()
				if uint64(len(out)) < n {
					n = uint64(len(out))
				}
				copy(m.mem[outOff.Uint64():outOff.Uint64()+n], out)
			}

		case op == 0xf0 && m.static:
			return finish(Fail, "write-protection", nil)
		case op == 0xf0: // CREATE
			value, off, size := m.pop(), m.pop(), m.pop()
			if m.run.tainted {
				return finish(OutOfScope, "opaque operand", nil)
			}
			if h := m.touch(off, size); h != nil {
				return finish(h.class, h.reason, nil)
			}
			if value.Sign() != 0 {
				return finish(OutOfScope, "CREATE with value", nil)
			}
			if m.depth >= 64 {
				return finish(Gray, "create-depth", nil)
			}
			initcode := []byte{}
			if size.Sign() != 0 {
				initcode = append(initcode, m.mem[off.Uint64():off.Uint64()+size.Uint64()]...)
			}
			w := m.run.world
			creator := w.get(m.self)
			addr := CreateAddress(m.self, creator.Nonce)
			creator.Nonce++
			res.Created = append(res.Created, addr)
			if ex := w.Acc[addr]; ex != nil && (ex.Nonce != 0 || len(ex.Code) != 0) {
				res.FailedChildren++ // address collision: all gas passed on is lost
				m.ret = nil
				m.push(new(big.Int))
				break
			}
			snapshot := w.copy()
			fresh := w.get(addr)
			fresh.Nonce, fresh.Code, fresh.Storage = 1, nil, map[[32]byte]*big.Int{}
			child := &machine{run: m.run, cfg: cfg, code: initcode, self: addr, depth: m.depth + 1, res: res}
			c, ret := child.exec()
			switch c {
			case Success:
				if len(ret) > 24576 {
					return finish(Gray, "code-size-above-eip170", nil)
				}
				w.get(addr).Code = ret
				m.ret = nil
				m.push(new(big.Int).SetBytes(addr[:]))
			case Revert:
				m.run.world.Acc = snapshot.Acc
				m.ret = ret
				m.push(new(big.Int))
			case Fail:
				m.ret = nil
				res.FailedChildren++
				m.run.world.Acc = snapshot.Acc
				m.push(new(big.Int))
			default:
				return finish(c, child.reason, nil)
			}

		case op == 0xf3 || op == 0xfd: // RETURN / REVERT
			off, size := m.pop(), m.pop()
			if m.run.tainted {
				return finish(OutOfScope, "opaque operand", nil)
			}
			if h := m.touch(off, size); h != nil {
				return finish(h.class, h.reason, nil)
			}
			ret := []byte{}
			if size.Sign() != 0 {
				ret = append(ret, m.mem[off.Uint64():off.Uint64()+size.Uint64()]...)
			}
			res.Hist[op]++
			if op == 0xfd {
				return finish(Revert, "", ret)
			}
			return finish(Success, "", ret)
		default:
			return finish(OutOfScope, "opcode "+Name(op), nil)
		}
		if m.run.tainted {
			return finish(OutOfScope, "opaque operand", nil)
		}
		res.Hist[op]++
		pc = next
	}
}

// Binary gives the result word of a two-operand instruction; a is the top of
// the stack, b the item below it.
func Binary(op byte, a, b *big.Int) *big.Int {
	z := new(big.Int)
	switch op {
	case 0x01:
		return u256(z.Add(a, b))
	case 0x02:
		return u256(z.Mul(a, b))
	case 0x03:
		return u256(z.Sub(a, b))
	case 0x04:
		if b.Sign() == 0 {
			return z
		}
		return z.Quo(a, b)
	case 0x05: // SDIV: truncation toward zero; -2^255 / -1 wraps to -2^255
		if b.Sign() == 0 {
			return z
		}
		return u256(z.Quo(signed(a), signed(b)))
	case 0x06:
		if b.Sign() == 0 {
			return z
		}
		return z.Rem(a, b)
	case 0x07: // SMOD: sign of the dividend
		if b.Sign() == 0 {
			return z
		}
		return u256(z.Rem(signed(a), signed(b)))
	case 0x0a:
		return z.Exp(a, b, two256)
	case 0x0b: // SIGNEXTEND: a = index of the byte holding the sign bit, b = value
		if a.Cmp(big31) >= 0 {
			return b
		}
		t := uint(a.Uint64())*8 + 7
		low := new(big.Int).Sub(new(big.Int).Lsh(one, t+1), one) // bits 0..t
		if b.Bit(int(t)) == 1 {
			return z.Or(b, new(big.Int).Sub(mask256, low))
		}
		return z.And(b, low)
	case 0x10:
		return boolWord(a.Cmp(b) < 0)
	case 0x11:
		return boolWord(a.Cmp(b) > 0)
	case 0x12:
		return boolWord(signed(a).Cmp(signed(b)) < 0)
	case 0x13:
		return boolWord(signed(a).Cmp(signed(b)) > 0)
	case 0x14:
		return boolWord(a.Cmp(b) == 0)
	case 0x16:
		return z.And(a, b)
	case 0x17:
		return z.Or(a, b)
	case 0x18:
		return z.Xor(a, b)
	case 0x1a: // BYTE: a = index from the most significant byte, b = value
		if a.Cmp(big32) >= 0 {
			return z
		}
		return z.And(z.Rsh(b, 8*(31-uint(a.Uint64()))), bigFF)
	case 0x1b: // SHL: a = shift, b = value
		if a.Cmp(big256) >= 0 {
			return z
		}
		return u256(z.Lsh(b, uint(a.Uint64())))
	case 0x1c:
		if a.Cmp(big256) >= 0 {
			return z
		}
		return z.Rsh(b, uint(a.Uint64()))
	case 0x1d: // SAR: floor(signed(b) / 2^a)
		sb := signed(b)
		if a.Cmp(big256) >= 0 {
			if sb.Sign() < 0 {
				return new(big.Int).Set(mask256)
			}
			return z
		}
		return u256(z.Rsh(sb, uint(a.Uint64()))) // big.Int.Rsh on negatives is an arithmetic shift
	}
	panic("evmref: not a binary op")
}

// Ternary gives ADDMOD / MULMOD of (a, b) modulo n computed without the
// intermediate wrapping at 2^256; a zero modulus yields zero.
func Ternary(op byte, a, b, n *big.Int) *big.Int {
	z := new(big.Int)
	if n.Sign() == 0 {
		return z
	}
	if op == 0x08 {
		return z.Rem(z.Add(a, b), n)
	}
	return z.Rem(z.Mul(a, b), n)
}
