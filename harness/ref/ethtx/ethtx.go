// Package ethtx is an independent reference for legacy Ethereum transactions:
// RLP encoding of the nine-field list, Keccak-256, the EIP-155 / Homestead signing
// hashes, the transaction hash and the address of a public key. It imports
// nothing from go-rangers (only the standard library and x/crypto/sha3), so a
// monitor can use it to state what an honestly signed transaction is.
package ethtx

import (
	"math/big"

	"golang.org/x/crypto/sha3"
)

// Keccak256 is the legacy (pre-NIST padding) Keccak-256 used by Ethereum.
func Keccak256(data ...[]byte) []byte {
	h := sha3.NewLegacyKeccak256()
	for _, d := range data {
		h.Write(d)
	}
	return h.Sum(nil)
}

// ---- RLP (encoding only, canonical) ----------------------------------------

func encLen(l int, offset byte) []byte {
	if l < 56 {
		return []byte{offset + byte(l)}
	}
	var lb []byte
	for x := l; x > 0; x >>= 8 {
		lb = append([]byte{byte(x)}, lb...)
	}
	return append([]byte{offset + 55 + byte(len(lb))}, lb...)
}

// Bytes encodes a byte string.
func Bytes(b []byte) []byte {
	if len(b) == 1 && b[0] < 0x80 {
		return []byte{b[0]}
	}
	return append(encLen(len(b), 0x80), b...)
}

// Uint encodes an unsigned integer (big-endian, no leading zeros; 0 = empty string).
func Uint(v uint64) []byte { return Big(new(big.Int).SetUint64(v)) }

// Big encodes a non-negative big integer.
func Big(v *big.Int) []byte {
	if v == nil || v.Sign() == 0 {
		return []byte{0x80}
	}
	return Bytes(v.Bytes())
}

// List wraps already encoded items into a list.
func List(items ...[]byte) []byte {
	var body []byte
	for _, it := range items {
		body = append(body, it...)
	}
	return append(encLen(len(body), 0xc0), body...)
}

// ---- legacy transaction -----------------------------------------------------

// Tx is a legacy transaction. To == nil (or empty) means contract creation.
type Tx struct {
	Nonce    uint64
	GasPrice *big.Int
	Gas      uint64
	To       []byte
	Value    *big.Int
	Data     []byte
	V, R, S  *big.Int
}

func (t *Tx) head() [][]byte {
	return [][]byte{Uint(t.Nonce), Big(t.GasPrice), Uint(t.Gas), Bytes(t.To), Big(t.Value), Bytes(t.Data)}
}

// Encode is the canonical RLP of the signed transaction.
func (t *Tx) Encode() []byte {
	return List(append(t.head(), Big(t.V), Big(t.R), Big(t.S))...)
}

// Hash is the transaction hash (Keccak-256 of the signed RLP).
func (t *Tx) Hash() []byte { return Keccak256(t.Encode()) }

// SigHash155 is the EIP-155 signing hash for chainID.
func (t *Tx) SigHash155(chainID *big.Int) []byte {
	return Keccak256(List(append(t.head(), Big(chainID), Uint(0), Uint(0))...))
}

// SigHashHomestead is the pre-EIP-155 signing hash (six fields).
func (t *Tx) SigHashHomestead() []byte { return Keccak256(List(t.head()...)) }

// V155 is the EIP-155 v value for a recovery id (0/1).
func V155(chainID *big.Int, recid byte) *big.Int {
	v := new(big.Int).Mul(chainID, big.NewInt(2))
	return v.Add(v, big.NewInt(int64(35+int(recid))))
}

// Address is the 20-byte address of an uncompressed public key (x, y).
func Address(x, y *big.Int) []byte {
	b := make([]byte, 64)
	xb, yb := x.Bytes(), y.Bytes()
	copy(b[32-len(xb):32], xb)
	copy(b[64-len(yb):], yb)
	return Keccak256(b)[12:]
}

// secp256k1 group order and half order.
var (
	N, _  = new(big.Int).SetString("fffffffffffffffffffffffffffffffebaaedce6af48a03bbfd25e8cd0364141", 16)
	HalfN = new(big.Int).Rsh(N, 1)
	P, _  = new(big.Int).SetString("fffffffffffffffffffffffffffffffffffffffffffffffffffffffefffffc2f", 16)
)
