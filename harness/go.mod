module verifharness

go 1.13

require (
	com.tuntun.rangers/node v0.0.0
	github.com/VictoriaMetrics/fastcache v1.5.7
	github.com/anishathalye/porcupine v1.3.0
	github.com/golang/protobuf v1.4.2
	github.com/mattn/go-sqlite3 v1.10.0
	github.com/syndtr/goleveldb v1.0.0
	golang.org/x/crypto v0.0.0-20210711020723-a769d52b0f97
)

replace com.tuntun.rangers/node => /repo
