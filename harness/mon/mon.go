// Package mon is the shared monitor runtime of the verification harness:
// seeded PRNG, counters / distinct sets / samples, violation + replay files,
// known-findings matching, evidence writer, child-process supervision.
package mon

import (
	"crypto/sha256"
	"encoding/binary"
	"encoding/hex"
	"encoding/json"
	"fmt"
	"io/ioutil"
	"math/rand"
	"os"
	"path/filepath"
	"runtime/debug"
	"sort"
	"strconv"
	"strings"
	"sync"
	"time"
)

// Root is the /verif directory (overridable for tests of the harness itself).
func Root() string {
	if v := os.Getenv("VERIF_ROOT"); v != "" {
		return v
	}
	return "/verif"
}

// OutRoot is where evidence/ and replays/ are written (VERIF_OUT; default Root()).
// Mutation trials (VERIF_REPO) write to a scratch dir so /verif/evidence stays
// the evidence of the real tree.
func OutRoot() string {
	if v := os.Getenv("VERIF_OUT"); v != "" {
		return v
	}
	return Root()
}

// ---------------------------------------------------------------------------
// PRNG: splitmix64 as a rand.Source64; streams are derived by hashing labels.

type splitmix struct{ s uint64 }

func (s *splitmix) Uint64() uint64 {
	s.s += 0x9e3779b97f4a7c15
	z := s.s
	z = (z ^ (z >> 30)) * 0xbf58476d1ce4e5b9
	z = (z ^ (z >> 27)) * 0x94d049bb133111eb
	return z ^ (z >> 31)
}
func (s *splitmix) Int63() int64    { return int64(s.Uint64() >> 1) }
func (s *splitmix) Seed(seed int64) { s.s = uint64(seed) }

// NewRand returns a deterministic PRNG for (seed, labels...).
func NewRand(seed int64, labels ...interface{}) *rand.Rand {
	h := sha256.New()
	var b [8]byte
	binary.BigEndian.PutUint64(b[:], uint64(seed))
	h.Write(b[:])
	for _, l := range labels {
		fmt.Fprintf(h, "|%v", l)
	}
	sum := h.Sum(nil)
	return rand.New(&splitmix{s: binary.BigEndian.Uint64(sum[:8])})
}

// ---------------------------------------------------------------------------

type Violation struct {
	Property  string          `json:"property"`
	Signature string          `json:"signature"`
	What      string          `json:"what"`
	Seed      int64           `json:"seed"`
	Tier      string          `json:"tier"`
	Witness   json.RawMessage `json:"witness"`
	Replay    string          `json:"replay,omitempty"`
}

type knownEntry struct {
	Property  string `json:"property"`
	Signature string `json:"signature"`
	What      string `json:"what"`
	Status    string `json:"status"` // "known" | "fixed"
	Commit    string `json:"commit,omitempty"`
}

// Run is the per-invocation monitor state. All methods are goroutine safe.
type Run struct {
	ID    string
	Tier  string
	Seed  int64
	Level string // exploration | fault_enumeration

	start time.Time
	mu    sync.Mutex

	counters   map[string]int64
	distinct   map[string]map[uint64]struct{}
	samples    []interface{}
	maxSamples int
	violations []Violation
	vioSeen    map[string]int // signature -> count
	notes      []string
	inconcl    []string

	childOut string // when non-empty: child mode, Finish writes partial state here
	caseFile *os.File
}

type partial struct {
	Counters   map[string]int64    `json:"counters"`
	Distinct   map[string][]uint64 `json:"distinct"`
	Samples    []interface{}       `json:"samples"`
	Violations []Violation         `json:"violations"`
	Notes      []string            `json:"notes"`
	Inconcl    []string            `json:"inconclusive"`
}

// Start creates the run from the environment: VERIF_TIER (quick|thorough),
// VERIF_SEED (default 1). In a child process (VERIF_CHILD_OUT set) Finish writes
// a partial result instead of evidence.
func Start(id string) *Run {
	r := &Run{ID: id, Tier: "quick", Seed: 1, Level: "exploration", start: time.Now(),
		counters: map[string]int64{}, distinct: map[string]map[uint64]struct{}{},
		vioSeen: map[string]int{}, maxSamples: 6}
	if t := os.Getenv("VERIF_TIER"); t == "thorough" || t == "quick" {
		r.Tier = t
	}
	if s := os.Getenv("VERIF_SEED"); s != "" {
		if v, err := strconv.ParseInt(s, 10, 64); err == nil {
			r.Seed = v
		}
	}
	r.childOut = os.Getenv("VERIF_CHILD_OUT")
	if cf := os.Getenv("VERIF_CHILD_CASE"); cf != "" {
		f, err := os.OpenFile(cf, os.O_CREATE|os.O_RDWR, 0644)
		if err == nil {
			r.caseFile = f
		}
	}
	return r
}

func (r *Run) IsChild() bool  { return r.childOut != "" }
func (r *Run) Thorough() bool { return r.Tier == "thorough" }

// Pick returns q in the quick tier and t in the thorough tier.
func (r *Run) Pick(q, t int) int {
	if r.Thorough() {
		return t
	}
	return q
}

func (r *Run) Rand(labels ...interface{}) *rand.Rand { return NewRand(r.Seed, labels...) }

func (r *Run) Count(key string, n int64) {
	r.mu.Lock()
	r.counters[key] += n
	r.mu.Unlock()
}

func (r *Run) Max(key string, v int64) {
	r.mu.Lock()
	if v > r.counters[key] {
		r.counters[key] = v
	}
	r.mu.Unlock()
}

func (r *Run) Get(key string) int64 {
	r.mu.Lock()
	defer r.mu.Unlock()
	return r.counters[key]
}

// Distinct records a member of a named set (by 64-bit hash of the bytes).
func (r *Run) Distinct(set string, data ...[]byte) {
	h := sha256.New()
	for _, d := range data {
		var l [4]byte
		binary.BigEndian.PutUint32(l[:], uint32(len(d)))
		h.Write(l[:])
		h.Write(d)
	}
	v := binary.BigEndian.Uint64(h.Sum(nil)[:8])
	r.DistinctHash(set, v)
}

func (r *Run) DistinctHash(set string, v uint64) {
	r.mu.Lock()
	m := r.distinct[set]
	if m == nil {
		m = map[uint64]struct{}{}
		r.distinct[set] = m
	}
	m[v] = struct{}{}
	r.mu.Unlock()
}

func (r *Run) DistinctCount(set string) int {
	r.mu.Lock()
	defer r.mu.Unlock()
	return len(r.distinct[set])
}

// Sample keeps the first few concrete cases for the evidence file.
func (r *Run) Sample(v interface{}) {
	r.mu.Lock()
	if len(r.samples) < r.maxSamples {
		r.samples = append(r.samples, v)
	}
	r.mu.Unlock()
}

func (r *Run) Note(format string, a ...interface{}) {
	r.mu.Lock()
	if len(r.notes) < 40 {
		r.notes = append(r.notes, fmt.Sprintf(format, a...))
	}
	r.mu.Unlock()
}

// Inconclusive records a watchdog / checker timeout. It never counts as held or violated.
func (r *Run) Inconclusive(format string, a ...interface{}) {
	r.mu.Lock()
	r.inconcl = append(r.inconcl, fmt.Sprintf(format, a...))
	r.mu.Unlock()
}

// CaseBegin logs the case about to be executed (child mode) so that a fatal
// error leaves the witness on disk. Cheap: one pwrite.
func (r *Run) CaseBegin(b []byte) {
	if r.caseFile == nil {
		return
	}
	var hdr [8]byte
	binary.BigEndian.PutUint64(hdr[:], uint64(len(b)))
	r.caseFile.WriteAt(append(hdr[:], b...), 0)
}

// Violation records a refutation. sig is the classifier signature matched
// against known_findings.json; witness must be enough to replay the case.
func (r *Run) Violation(sig, what string, witness interface{}) {
	wb, err := json.Marshal(witness)
	if err != nil {
		wb, _ = json.Marshal(fmt.Sprintf("%+v", witness))
	}
	r.mu.Lock()
	defer r.mu.Unlock()
	r.vioSeen[sig]++
	if r.vioSeen[sig] > 3 { // keep at most 3 witnesses per signature
		return
	}
	r.violations = append(r.violations, Violation{Property: r.ID, Signature: sig, What: what,
		Seed: r.Seed, Tier: r.Tier, Witness: wb})
}

// Guard runs f and converts a panic into a violation with the given witness.
func (r *Run) Guard(sigPrefix string, witness interface{}, f func()) (panicked bool) {
	defer func() {
		if e := recover(); e != nil {
			panicked = true
			st := string(debug.Stack())
			r.Violation(sigPrefix+":panic:"+PanicSite(st), fmt.Sprintf("panic: %v", e),
				map[string]interface{}{"case": witness, "panic": fmt.Sprint(e), "stack": trimStack(st)})
		}
	}()
	f()
	return false
}

// PanicSite extracts the first repository frame (function name) below the panic.
func PanicSite(stack string) string {
	lines := strings.Split(stack, "\n")
	seenPanic := false
	for _, l := range lines {
		if strings.HasPrefix(l, "panic(") || strings.Contains(l, "runtime.panic") || strings.Contains(l, "runtime.goPanic") || strings.Contains(l, "runtime.sigpanic") {
			seenPanic = true
			continue
		}
		if seenPanic && strings.HasPrefix(l, "com.tuntun.rangers/node/") {
			fn := l
			if i := strings.LastIndex(fn, "("); i > 0 {
				fn = fn[:i]
			}
			fn = strings.TrimPrefix(fn, "com.tuntun.rangers/node/src/")
			return fn
		}
	}
	return "unknown"
}

func trimStack(st string) string {
	if len(st) > 3000 {
		return st[:3000]
	}
	return st
}

// ---------------------------------------------------------------------------
// known findings

func loadKnown() []knownEntry {
	b, err := ioutil.ReadFile(filepath.Join(Root(), "known_findings.json"))
	if err != nil {
		return nil
	}
	var f struct {
		Findings []knownEntry `json:"findings"`
	}
	if json.Unmarshal(b, &f) != nil {
		return nil
	}
	return f.Findings
}

// ---------------------------------------------------------------------------

// Coverage is what the driver states about the run; counters are merged in.
type Coverage struct {
	Evaluations        int64
	DistinctNontrivial int64
	Rule               string
	Exhaustive         bool
	Assumptions        []string
	// MustObserve lists counters that must be > 0, else the run observed
	// nothing at a hook it depends on and exits 2.
	MustObserve []string
}

func (r *Run) writePartial() {
	p := partial{Counters: r.counters, Distinct: map[string][]uint64{}, Samples: r.samples,
		Violations: r.violations, Notes: r.notes, Inconcl: r.inconcl}
	for k, m := range r.distinct {
		s := make([]uint64, 0, len(m))
		for v := range m {
			s = append(s, v)
		}
		p.Distinct[k] = s
	}
	b, _ := json.Marshal(p)
	tmp := r.childOut + ".tmp"
	ioutil.WriteFile(tmp, b, 0644)
	os.Rename(tmp, r.childOut)
}

// FlushChild writes the partial state now (children that may be killed later).
func (r *Run) FlushChild() {
	if r.childOut == "" {
		return
	}
	r.mu.Lock()
	defer r.mu.Unlock()
	r.writePartial()
}

// Merge adds a child's partial result file into this run.
func (r *Run) Merge(path string) error {
	b, err := ioutil.ReadFile(path)
	if err != nil {
		return err
	}
	var p partial
	if err := json.Unmarshal(b, &p); err != nil {
		return err
	}
	r.mu.Lock()
	defer r.mu.Unlock()
	for k, v := range p.Counters {
		if strings.HasPrefix(k, "max_") {
			if v > r.counters[k] {
				r.counters[k] = v
			}
		} else {
			r.counters[k] += v
		}
	}
	for k, s := range p.Distinct {
		m := r.distinct[k]
		if m == nil {
			m = map[uint64]struct{}{}
			r.distinct[k] = m
		}
		for _, v := range s {
			m[v] = struct{}{}
		}
	}
	for _, s := range p.Samples {
		if len(r.samples) < r.maxSamples {
			r.samples = append(r.samples, s)
		}
	}
	for _, v := range p.Violations {
		r.vioSeen[v.Signature]++
		if r.vioSeen[v.Signature] <= 3 {
			r.violations = append(r.violations, v)
		}
	}
	r.notes = append(r.notes, p.Notes...)
	if len(r.notes) > 40 {
		r.notes = r.notes[:40]
	}
	r.inconcl = append(r.inconcl, p.Inconcl...)
	return nil
}

// Finish writes evidence (or the child partial) and exits:
// 0 held / known findings only, 1 new violation, 2 machinery problem.
func (r *Run) Finish(cov Coverage) {
	if r.childOut != "" {
		r.mu.Lock()
		r.counters["evaluations"] += cov.Evaluations
		r.writePartial()
		r.mu.Unlock()
		os.Exit(0)
	}
	r.mu.Lock()
	defer r.mu.Unlock()

	known := loadKnown()
	newV := 0
	printedKnown := map[string]bool{}
	repDir := filepath.Join(OutRoot(), "replays", r.ID)
	sigs := make([]string, 0)
	for i := range r.violations {
		v := &r.violations[i]
		isKnown := false
		for _, k := range known {
			if k.Property == r.ID && k.Status == "known" && k.Signature == v.Signature {
				isKnown = true
				if !printedKnown[k.Signature] {
					printedKnown[k.Signature] = true
					fmt.Printf("KNOWN-FINDING: property=%s %s [%s] (seen %d times this run)\n", r.ID, k.What, k.Signature, r.vioSeen[v.Signature])
				}
			}
		}
		if isKnown {
			continue
		}
		os.MkdirAll(repDir, 0755)
		h := sha256.Sum256(append([]byte(v.Signature), v.Witness...))
		path := filepath.Join(repDir, sanitize(v.Signature)+"-"+hex.EncodeToString(h[:4])+".json")
		v.Replay = path
		b, _ := json.MarshalIndent(v, "", " ")
		ioutil.WriteFile(path, b, 0644)
		fmt.Printf("VIOLATION property=%s replay=%s\n", r.ID, path)
		fmt.Printf("  signature: %s\n  what: %s\n", v.Signature, v.What)
		newV++
		sigs = append(sigs, v.Signature)
	}

	missing := []string{}
	for _, k := range cov.MustObserve {
		if r.counters[k] <= 0 {
			missing = append(missing, k)
		}
	}

	coverage := map[string]interface{}{}
	keys := make([]string, 0, len(r.counters))
	for k := range r.counters {
		keys = append(keys, k)
	}
	sort.Strings(keys)
	cnt := map[string]int64{}
	for _, k := range keys {
		cnt[k] = r.counters[k]
	}
	dist := map[string]int{}
	for k, m := range r.distinct {
		dist[k] = len(m)
	}
	coverage["evaluations"] = cov.Evaluations
	coverage["distinct_nontrivial"] = cov.DistinctNontrivial
	coverage["rule"] = cov.Rule
	if len(r.samples) == 0 {
		r.samples = append(r.samples, "no sample recorded")
	}
	coverage["samples"] = r.samples
	coverage["exhaustive"] = cov.Exhaustive
	coverage["observed"] = cnt
	coverage["distinct_sets"] = dist
	if len(r.notes) > 0 {
		coverage["notes"] = r.notes
	}
	if len(r.inconcl) > 0 {
		coverage["inconclusive"] = r.inconcl
	}
	vs := map[string]int{}
	for s, n := range r.vioSeen {
		vs[s] = n
	}
	coverage["violation_signatures"] = vs
	if cov.Assumptions == nil {
		cov.Assumptions = []string{}
	}
	ev := map[string]interface{}{
		"property_id": r.ID, "tier": r.Tier, "seed": r.Seed, "level": r.Level,
		"coverage": coverage, "assumptions": cov.Assumptions,
		"wall_s": time.Since(r.start).Seconds(), "violations": newV,
		"known_findings_seen": len(printedKnown),
	}
	b, _ := json.MarshalIndent(ev, "", " ")
	os.MkdirAll(filepath.Join(OutRoot(), "evidence"), 0755)
	evName := r.ID + ".json"
	if ReplayArg() != "" { // a replay never replaces the evidence of a real run
		evName = r.ID + ".replay.json"
	}
	ioutil.WriteFile(filepath.Join(OutRoot(), "evidence", evName), b, 0644)

	fmt.Printf("%s %s seed=%d: evaluations=%d distinct_nontrivial=%d violations(new)=%d known=%d inconclusive=%d wall=%.1fs\n",
		r.ID, r.Tier, r.Seed, cov.Evaluations, cov.DistinctNontrivial, newV, len(printedKnown), len(r.inconcl), time.Since(r.start).Seconds())
	for _, k := range keys {
		fmt.Printf("  observed %-40s %d\n", k, r.counters[k])
	}
	for k, n := range dist {
		fmt.Printf("  distinct %-40s %d\n", k, n)
	}
	for _, s := range r.inconcl {
		fmt.Printf("  INCONCLUSIVE: %s\n", s)
	}
	if newV > 0 {
		os.Exit(1)
	}
	if len(missing) > 0 {
		fmt.Printf("MACHINERY: nothing observed at %v — the check did not see what it depends on\n", missing)
		os.Exit(2)
	}
	if cov.Evaluations < 1 || cov.DistinctNontrivial < 2 {
		fmt.Printf("MACHINERY: too few cases (evaluations=%d distinct_nontrivial=%d)\n", cov.Evaluations, cov.DistinctNontrivial)
		os.Exit(2)
	}
	os.Exit(0)
}

func sanitize(s string) string {
	b := []byte(s)
	for i, c := range b {
		if !(c >= 'a' && c <= 'z' || c >= 'A' && c <= 'Z' || c >= '0' && c <= '9' || c == '-' || c == '_' || c == '.') {
			b[i] = '_'
		}
	}
	if len(b) > 80 {
		b = b[:80]
	}
	return string(b)
}

// LoadReplay reads a replay file written by Finish and returns its witness.
func LoadReplay(path string) (*Violation, error) {
	b, err := ioutil.ReadFile(path)
	if err != nil {
		return nil, err
	}
	var v Violation
	if err := json.Unmarshal(b, &v); err != nil {
		return nil, err
	}
	return &v, nil
}

// ReplayArg returns the path given as "--replay <path>" on the command line.
func ReplayArg() string {
	for i, a := range os.Args {
		if a == "--replay" && i+1 < len(os.Args) {
			return os.Args[i+1]
		}
	}
	return ""
}

// Hex is a []byte that marshals as a hex string (for readable witnesses).
type Hex []byte

func (h Hex) MarshalJSON() ([]byte, error) { return json.Marshal(hex.EncodeToString(h)) }
func (h *Hex) UnmarshalJSON(b []byte) error {
	var s string
	if err := json.Unmarshal(b, &s); err != nil {
		return err
	}
	d, err := hex.DecodeString(s)
	*h = d
	return err
}
