package mon

import (
	"encoding/binary"
	"fmt"
	"io/ioutil"
	"os"
	"os/exec"
	"path/filepath"
	"regexp"
	"strings"
	"sync"
	"syscall"
	"time"
)

// ChildSpec describes one child process: the same binary re-executed with
// "--child" followed by Args.
type ChildSpec struct {
	Label   string
	Args    []string
	Env     []string // extra KEY=VALUE
	Dir     string   // working directory (created if missing); default: fresh dir under WorkDir
	Timeout time.Duration
	Bin     string // default: os.Args[0]
	KeepDir bool
}

type ChildResult struct {
	Spec     ChildSpec
	Exit     int
	TimedOut bool
	Dir      string
	LogFile  string
	Partial  string
	LastCase []byte
	LogTail  string
	Wall     time.Duration
}

var (
	workOnce sync.Once
	workDir  string
)

// WorkDir returns a per-process scratch directory, removed by CleanWork.
func WorkDir() string {
	workOnce.Do(func() {
		base := os.Getenv("VERIF_WORK")
		if base == "" {
			base = os.TempDir()
		}
		d, err := ioutil.TempDir(base, "verif-work-")
		if err != nil {
			panic(err)
		}
		workDir = d
	})
	return workDir
}

func CleanWork() {
	if workDir != "" {
		os.RemoveAll(workDir)
	}
}

var childSeq int64
var childSeqMu sync.Mutex

func nextChildID() int64 {
	childSeqMu.Lock()
	defer childSeqMu.Unlock()
	childSeq++
	return childSeq
}

// RunChild runs one child and returns what happened. It never judges.
func (r *Run) RunChild(spec ChildSpec) ChildResult {
	id := nextChildID()
	res := ChildResult{Spec: spec}
	dir := spec.Dir
	if dir == "" {
		dir = filepath.Join(WorkDir(), fmt.Sprintf("child-%d", id))
	}
	os.MkdirAll(dir, 0755)
	res.Dir = dir
	meta := filepath.Join(WorkDir(), fmt.Sprintf("meta-%d", id))
	os.MkdirAll(meta, 0755)
	res.LogFile = filepath.Join(meta, "out.log")
	res.Partial = filepath.Join(meta, "partial.json")
	caseFile := filepath.Join(meta, "case.bin")
	bin := spec.Bin
	if bin == "" {
		bin = os.Args[0]
	}
	if spec.Timeout == 0 {
		spec.Timeout = 5 * time.Minute
	}
	logf, _ := os.Create(res.LogFile)
	cmd := exec.Command(bin, append([]string{"--child"}, spec.Args...)...)
	cmd.Dir = dir
	cmd.Stdout = logf
	cmd.Stderr = logf
	cmd.Env = append(os.Environ(),
		"VERIF_CHILD_OUT="+res.Partial, "VERIF_CHILD_CASE="+caseFile,
		"VERIF_TIER="+r.Tier, fmt.Sprintf("VERIF_SEED=%d", r.Seed))
	cmd.Env = append(cmd.Env, spec.Env...)
	start := time.Now()
	if err := cmd.Start(); err != nil {
		res.Exit = -1
		res.LogTail = err.Error()
		logf.Close()
		return res
	}
	done := make(chan error, 1)
	go func() { done <- cmd.Wait() }()
	var err error
	select {
	case err = <-done:
	case <-time.After(spec.Timeout):
		res.TimedOut = true
		cmd.Process.Signal(syscall.SIGQUIT) // goroutine dump into the log
		select {
		case err = <-done:
		case <-time.After(10 * time.Second):
			cmd.Process.Kill()
			err = <-done
		}
	}
	logf.Close()
	res.Wall = time.Since(start)
	if err != nil {
		if ee, ok := err.(*exec.ExitError); ok {
			res.Exit = ee.ExitCode()
		} else {
			res.Exit = -1
		}
	}
	if b, e := ioutil.ReadFile(caseFile); e == nil && len(b) >= 8 {
		n := binary.BigEndian.Uint64(b[:8])
		if int(n) <= len(b)-8 {
			res.LastCase = b[8 : 8+n]
		}
	}
	res.LogTail = tailFile(res.LogFile, 6000)
	r.Count("child_processes", 1)
	return res
}

// RunChildren runs the specs with bounded parallelism, preserving order.
func (r *Run) RunChildren(specs []ChildSpec, parallel int) []ChildResult {
	out := make([]ChildResult, len(specs))
	sem := make(chan struct{}, parallel)
	var wg sync.WaitGroup
	for i := range specs {
		wg.Add(1)
		sem <- struct{}{}
		go func(i int) {
			defer wg.Done()
			defer func() { <-sem }()
			out[i] = r.RunChild(specs[i])
		}(i)
	}
	wg.Wait()
	return out
}

// Absorb merges a child's partial result and classifies abnormal endings:
// timeout -> inconclusive; crash (exit other than 0 and the allowed codes) ->
// violation "fatal" with the last logged case and the log tail as witness.
func (r *Run) Absorb(res ChildResult, sigPrefix string, allowedExit ...int) (ok bool) {
	if _, err := os.Stat(res.Partial); err == nil {
		if e := r.Merge(res.Partial); e != nil {
			r.Note("merge %s: %v", res.Spec.Label, e)
		}
	}
	if res.TimedOut {
		r.Inconclusive("child %s %v hit the %v watchdog; dump in log tail: %s", res.Spec.Label, res.Spec.Args, res.Spec.Timeout, firstLines(res.LogTail, 6))
		return false
	}
	if res.Exit == 0 {
		return true
	}
	for _, a := range allowedExit {
		if res.Exit == a {
			return true
		}
	}
	site := FatalSite(res.LogTail)
	r.Violation(sigPrefix+":fatal:"+site, fmt.Sprintf("child process died with exit %d (%s)", res.Exit, site),
		map[string]interface{}{"args": res.Spec.Args, "last_case": Hex(res.LastCase), "log_tail": res.LogTail})
	return false
}

var reRepoFrame = regexp.MustCompile(`com\.tuntun\.rangers/node/src/([^\s(]+(?:\([^)]*\))?[^\s(]*)\(`)

// FatalSite classifies a crashed child's log: kind of death + first repo frame.
func FatalSite(log string) string {
	kind := "exit"
	switch {
	case strings.Contains(log, "fatal error: concurrent map"):
		kind = "concurrent-map"
	case strings.Contains(log, "fatal error: checkptr"):
		kind = "checkptr"
	case strings.Contains(log, "WARNING: DATA RACE"):
		kind = "data-race"
	case strings.Contains(log, "AddressSanitizer"):
		kind = "asan"
	case strings.Contains(log, "all goroutines are asleep"):
		kind = "deadlock"
	case strings.Contains(log, "stack overflow"):
		kind = "stack-overflow"
	case strings.Contains(log, "out of memory"):
		kind = "oom"
	case strings.Contains(log, "panic:"):
		kind = "panic"
	case strings.Contains(log, "fatal error:"):
		kind = "fatal"
	}
	idx := strings.Index(log, "panic:")
	if idx < 0 {
		idx = strings.Index(log, "fatal error:")
	}
	if idx < 0 {
		idx = 0
	}
	if m := reRepoFrame.FindStringSubmatch(log[idx:]); m != nil {
		return kind + "@" + m[1]
	}
	return kind
}

func tailFile(path string, n int64) string {
	f, err := os.Open(path)
	if err != nil {
		return ""
	}
	defer f.Close()
	st, _ := f.Stat()
	off := st.Size() - n
	if off < 0 {
		off = 0
	}
	b := make([]byte, st.Size()-off)
	f.ReadAt(b, off)
	return string(b)
}

// HeadTail returns the first and the last n bytes of a file.
func HeadTail(path string, n int64) string {
	b, err := ioutil.ReadFile(path)
	if err != nil {
		return ""
	}
	if int64(len(b)) <= 2*n {
		return string(b)
	}
	return string(b[:n]) + "\n…\n" + string(b[int64(len(b))-n:])
}

func firstLines(s string, n int) string {
	l := strings.Split(s, "\n")
	if len(l) > n {
		l = l[:n]
	}
	return strings.Join(l, " | ")
}

// IsChildInvocation reports whether this process was started by RunChild and
// returns the arguments after "--child".
func IsChildInvocation() ([]string, bool) {
	for i, a := range os.Args {
		if a == "--child" {
			return os.Args[i+1:], true
		}
	}
	return nil, false
}

// Parallel runs f(i) for i in [0,n) on w goroutines.
func Parallel(n, w int, f func(i int)) {
	if w < 1 {
		w = 1
	}
	var wg sync.WaitGroup
	ch := make(chan int, w)
	for k := 0; k < w; k++ {
		wg.Add(1)
		go func() {
			defer wg.Done()
			for i := range ch {
				f(i)
			}
		}()
	}
	for i := 0; i < n; i++ {
		ch <- i
	}
	close(ch)
	wg.Wait()
}
